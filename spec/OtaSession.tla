---------------------------- MODULE OtaSession ----------------------------
(* OTA firmware-update session automaton of the statement of C10, for two nodes.
   Written independently of the implementation; every edge of the state graph that TLC
   computes for this module is replayed on the real gateway by mc/tlc_replay.py.        *)
EXTENDS TLC

Nodes == {"A", "B"}
Phases == {"none", "requested", "offered", "fetching"}

VARIABLES phase, reboot, last
vars == <<phase, reboot, last>>

Init == /\ phase = [n \in Nodes |-> "none"]
        /\ reboot = [n \in Nodes |-> FALSE]
        /\ last = <<"Init", "-", "-">>

(* update call for a known node with available firmware: session (re)starts, reboot wanted *)
Update(n) == /\ phase' = [phase EXCEPT ![n] = "requested"]
             /\ reboot' = [reboot EXCEPT ![n] = TRUE]
             /\ last' = <<"Update", n, "silence">>

(* update call naming firmware that does not exist: nothing changes *)
UpdateUnknownFw(n) == /\ UNCHANGED <<phase, reboot>>
                      /\ last' = <<"UpdateUnknownFw", n, "silence">>

(* well-formed firmware config request *)
ConfigReq(n) == IF phase[n] \in {"requested", "offered"}
                THEN /\ phase' = [phase EXCEPT ![n] = "offered"]
                     /\ UNCHANGED reboot
                     /\ last' = <<"ConfigReq", n, "config">>
                ELSE /\ UNCHANGED <<phase, reboot>>
                     /\ last' = <<"ConfigReq", n, "silence">>

(* well-formed firmware block request for the scheduled firmware *)
BlockReq(n) == IF phase[n] \in {"offered", "fetching"}
               THEN /\ phase' = [phase EXCEPT ![n] = "fetching"]
                    /\ UNCHANGED reboot
                    /\ last' = <<"BlockReq", n, "block">>
               ELSE /\ UNCHANGED <<phase, reboot>>
                    /\ last' = <<"BlockReq", n, "silence">>

(* malformed firmware request: ignored *)
BadReq(n) == /\ UNCHANGED <<phase, reboot>>
             /\ last' = <<"BadReq", n, "silence">>

(* a set message from the node: answered with a reboot request while reboot is wanted *)
SetMsg(n) == /\ UNCHANGED <<phase, reboot>>
             /\ last' = <<"SetMsg", n, IF reboot[n] THEN "reboot" ELSE "silence">>

(* the node presents itself again: reboot no longer wanted *)
Present(n) == /\ reboot' = [reboot EXCEPT ![n] = FALSE]
              /\ UNCHANGED phase
              /\ last' = <<"Present", n, "silence">>

Next == \E n \in Nodes : \/ Update(n) \/ UpdateUnknownFw(n) \/ ConfigReq(n) \/ BlockReq(n)
                         \/ BadReq(n) \/ SetMsg(n) \/ Present(n)

Spec == Init /\ [][Next]_vars

TypeOK == /\ phase \in [Nodes -> Phases]
          /\ reboot \in [Nodes -> BOOLEAN]

(* a node that was never scheduled is never offered anything *)
Gated == \A n \in Nodes : (last[2] = n /\ last[3] \in {"config", "block"}) => phase[n] # "none"
=============================================================================
