INIT Init
NEXT Next
INVARIANT TypeOK
INVARIANT Gated
