#!/usr/bin/env python3
"""Print the DESIGN.md section 12 table from seeded/*/meta.json (+ first line of each notes.md)."""
import glob
import json
import os
import re

ROOT = os.path.dirname(os.path.dirname(os.path.abspath(__file__)))


def main():
    rows = []
    for d in sorted(glob.glob(os.path.join(ROOT, "seeded", "C*-*")), key=lambda p: (os.path.basename(p).split("-")[0], int(os.path.basename(p).split("-")[1]))):
        meta = json.load(open(os.path.join(d, "meta.json"), encoding="utf-8"))
        notes = os.path.join(d, "notes.md")
        title = ""
        if os.path.exists(notes):
            lines = [l for l in open(notes, encoding="utf-8").read().splitlines() if l.strip()]
            title = re.sub(r"^#+\s*", "", lines[0]) if lines else ""
            title = re.sub(r"^(C\d+\s*/?\s*)?((seed|round|wave)\s*\d\s*/?\s*)?[Cc]and(idate)?\s*\(?[^)]*?\)?\s*\d*\s*(\([^)]*\))?\s*[-:–]\s*", "", title)
            title = re.sub(r"^C\d+\s+candidate\s*\d+\s*[-:–]\s*", "", title)
        first = meta.get("first_run", {})
        cur = meta.get("current", {})
        sig = (cur.get("signatures") or [""])[0]
        first_txt = "yes" if first.get("detected") else ("no" if first else "-")
        cur_txt = "yes" if cur.get("detected") else ("NO" if cur else "?")
        others = [c for c, v in (cur.get("other_checks") or {}).items() if v.get("exit") == 1]
        if not cur.get("detected") and others:
            cur_txt = "by " + "/".join(others)
            sig = ((cur.get("other_checks") or {})[others[0]].get("signatures") or [""])[0]
        rows.append(f"| {meta['id']} | {title[:95].replace('|', '/')} | {first_txt} | {cur_txt} | `{sig[:90].replace('|', ' / ')}` |")
    print("| seed | change (author's title) | caught by the check as it was when the seed arrived | caught now | first signature reported by the property's check |")
    print("|---|---|---|---|---|")
    print("\n".join(rows))
    total = len(rows)
    first_yes = sum(1 for r in rows if "| yes |" in r.split("|", 4)[3] + "|") 
    print()
    print(f"{total} seeded changes kept.")


if __name__ == "__main__":
    main()
