#!/usr/bin/env python3
"""Rewrite the result paragraph and the table of DESIGN.md section 12 from seeded/*/meta.json."""
import glob
import json
import os
import subprocess
import sys

ROOT = os.path.dirname(os.path.dirname(os.path.abspath(__file__)))
BEGIN = "<!-- section12:results:begin -->"
END = "<!-- section12:results:end -->"


def main():
    metas = []
    for d in sorted(glob.glob(os.path.join(ROOT, "seeded", "C*-*"))):
        metas.append(json.load(open(os.path.join(d, "meta.json"), encoding="utf-8")))
    total = len(metas)
    per_round = [0, 0, 0, 0, 0]
    first_yes = first_no = 0
    now_own = now_other = now_no = unknown = 0
    missed_now = []
    other = []
    for m in metas:
        k = int(m["id"].split("-")[1])
        per_round[(k - 1) // 3] += 1
        fr = m.get("first_run") or {}
        if fr.get("detected"):
            first_yes += 1
        else:
            first_no += 1
        cur = m.get("current") or {}
        others = [c for c, v in (cur.get("other_checks") or {}).items() if v.get("exit") == 1]
        if cur.get("detected"):
            now_own += 1
        elif others:
            now_other += 1
            other.append(f"{m['id']} (by {'/'.join(others)})")
        elif cur:
            now_no += 1
            missed_now.append(m["id"])
        else:
            unknown += 1
    table = subprocess.run([sys.executable, os.path.join(ROOT, "tools", "seed_table.py")], capture_output=True, text=True, check=True).stdout
    text = (
        f"Result: {total} changes kept ({' + '.join(str(n) for n in per_round)} in rounds 1-5). {first_yes} were caught by the property's check as it was "
        f"when the change arrived; {first_no} were missed at first (a few of them had no valid first evaluation because the check crashed, hung "
        f"or their author was still editing them - all counted as missed). After the strengthening described in section 10, {now_own} are caught by "
        f"the property's own check, {now_other} by the check of a sibling property ({', '.join(other) or '-'}: the change breaks that property too, "
        f"and the own property only through it), and {now_no} {'is' if now_no == 1 else 'are'} not caught ({', '.join(missed_now) or '-'})"
        + (f"; {unknown} have no current record" if unknown else "")
        + ".\n"
    )
    path = os.path.join(ROOT, "DESIGN.md")
    s = open(path, encoding="utf-8").read()
    if BEGIN not in s:
        s = s.replace("SEEDED_RESULT_PLACEHOLDER", BEGIN + "\n" + END)
    i, j = s.index(BEGIN), s.index(END)
    s = s[: i + len(BEGIN)] + "\n" + text + s[j:]
    # table: from the header row to the '<n> seeded changes kept.' line
    t0 = s.index("| seed | change (author's title) |")
    marker = " seeded changes kept."
    t1 = s.index(marker, t0)
    t1 = s.index("\n", t1) + 1
    s = s[:t0] + table + s[t1:]
    open(path, "w", encoding="utf-8").write(s)
    print(text)


if __name__ == "__main__":
    main()
