#!/bin/sh
# usage: run_wave.sh <seed dir prefix, e.g. /tmp/seed5> <out file> <id> ...
# evaluates <prefix>_<id>/cand<k> with tools/try_seed.py (confirmation + the property's check, quick tier)
pre=$1; out=$2; shift; shift
for id in "$@"; do
  for k in 1 2 3; do
    d=${pre}_$id/cand$k
    [ -f $d/patch.diff ] || continue
    python3 /verif/tools/try_seed.py $d $id > $d/result.json 2>&1
    python3 - $d $id >> $out <<'PY'
import json,sys
d,pid=sys.argv[1],sys.argv[2]
try:
    r=json.load(open(d+'/result.json'))
    c=r['checks'].get(pid,{})
    print(pid, d.rsplit('/',1)[1], 'confirmed' if r['confirmed'] else 'UNCONFIRMED', 'exit', c.get('exit'), 'viol', c.get('violations'), c.get('signatures',[])[:2], c.get('harness_error'))
except Exception as e:
    print(pid, d, 'ERROR', e, open(d+'/result.json').read()[-300:])
PY
  done
done
echo "DONE $*" >> $out
