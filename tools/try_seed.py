#!/usr/bin/env python3
"""Confirm a seeded change and run checks against it.

usage: try_seed.py <candidate dir with patch.diff + demo.py> <check id> [<check id> ...] [--tier quick]

1. scratch worktree of /repo (outside /repo and /verif): demo on the clean tree must exit 0; apply the patch;
   the unedited test suite must pass; the demo must now fail. The worktree is removed again.
2. apply the patch to /repo itself, run the named checks, undo it straight afterwards (git checkout -- .).
Prints a JSON summary.
"""
import json
import os
import shutil
import subprocess
import sys
import tempfile

REPO = "/repo"
PY = "/venv/bin/python"


def sh(cmd, cwd=None, env=None, timeout=3000):
    e = dict(os.environ)
    if env:
        e.update(env)
    p = subprocess.run(cmd, cwd=cwd, env=e, shell=isinstance(cmd, str), capture_output=True, text=True, timeout=timeout)
    return p.returncode, p.stdout + p.stderr


def main():
    args = [a for a in sys.argv[1:] if not a.startswith("--")]
    tier = "quick"
    if "--tier" in sys.argv:
        tier = sys.argv[sys.argv.index("--tier") + 1]
        args = [a for a in args if a != tier]
    cand = os.path.abspath(args[0])
    checks = args[1:]
    patch = os.path.join(cand, "patch.diff")
    demo = os.path.join(cand, "demo.py")
    out = {"candidate": cand, "tier": tier}
    wt = tempfile.mkdtemp(prefix="vs_", dir="/tmp")
    os.rmdir(wt)
    rc, txt = sh(["git", "-C", REPO, "worktree", "add", "-q", "--detach", wt, "HEAD"])
    if rc:
        print(txt)
        return 2
    try:
        env = {"PYTHONPATH": wt, "PYTHONDONTWRITEBYTECODE": "1"}
        rc, txt = sh([PY, demo], cwd=wt, env=env, timeout=300)
        out["demo_clean_exit"] = rc
        rc, txt = sh(["git", "apply", patch], cwd=wt)
        if rc:
            # the tree has moved on since the change was written (later fix: commits): merge it
            rc, txt = sh(["git", "apply", "--3way", patch], cwd=wt)
            out["applied_with_3way_merge"] = rc == 0
        out["patch_applies"] = rc == 0
        if rc:
            out["patch_error"] = txt[-400:]
        else:
            rc, txt = sh([PY, "-m", "pytest", "-q", "-p", "no:cacheprovider", "-x"], cwd=wt, env=env, timeout=900)
            out["suite_exit_with_patch"] = rc
            out["suite_tail"] = txt.strip().splitlines()[-1] if txt.strip() else ""
            rc, txt = sh([PY, demo], cwd=wt, env=env, timeout=300)
            out["demo_patched_exit"] = rc
            out["demo_patched_tail"] = txt.strip().splitlines()[-3:]
            results = {}
            if checks and out["suite_exit_with_patch"] == 0:
                tag = os.path.basename(wt)
                for cid in checks:
                    rc, txt = sh(["./check", cid, "--tier", tier], cwd="/verif", timeout=6000, env={"VERIF_REPO": wt, "VERIF_EVIDENCE_DIR": f"/tmp/seed_evidence/{tag}", "VERIF_REPLAY_DIR": f"/tmp/seed_replays/{tag}"})
                    sigs = [l.strip()[len("signature: "):] for l in txt.splitlines() if l.strip().startswith("signature:")]
                    results[cid] = {"exit": rc, "violations": sum(1 for l in txt.splitlines() if l.startswith("VIOLATION")), "signatures": sigs[:6], "harness_error": [l for l in txt.splitlines() if "HARNESS-ERROR" in l or "Traceback" in l][:2]}
                shutil.rmtree(f"/tmp/seed_evidence/{tag}", ignore_errors=True)
                shutil.rmtree(f"/tmp/seed_replays/{tag}", ignore_errors=True)
            out["checks"] = results
    finally:
        sh(["git", "-C", REPO, "worktree", "remove", "--force", wt])
        shutil.rmtree(wt, ignore_errors=True)
    out["confirmed"] = bool(out.get("demo_clean_exit") == 0 and out.get("patch_applies") and out.get("suite_exit_with_patch") == 0 and out.get("demo_patched_exit", 0) != 0)
    out.setdefault("checks", {})
    print(json.dumps(out, indent=1))
    return 0


def _unused():
    results = {}
    out = {}
    out["checks"] = results
    print(json.dumps(out, indent=1))
    return 0


if __name__ == "__main__":
    sys.exit(main())
