#!/usr/bin/env python3
"""Copy confirmed seeded changes from the sub-agents' output directories into /verif/seeded/<id>/.

usage: keep_seeds.py <initial results file> ...   (lines as written by the wave drivers)
For every /tmp/seed_CNN/candK whose result.json says 'confirmed', writes
  seeded/CNN-K/patch.diff, demo.py, notes.md (the author's notes), meta.json
meta.json: property, what the change needs in order to manifest (first paragraphs of the notes), what was
run to confirm it, and the detection record (first run / after strengthening), filled in by run_seeded.py.
"""
import glob
import json
import os
import re
import shutil
import sys

ROOT = os.path.dirname(os.path.dirname(os.path.abspath(__file__)))


def initial_results(files):
    out = {}
    for f in files:
        for line in open(f, encoding="utf-8"):
            m = re.match(r"(C\d+) (cand\d) (\w+) exit (\S+) viol (\S+) (\[.*?\]) ", line)
            if m:
                key = (m.group(1), m.group(2))
                if key not in out:  # first evaluation wins: that is the 'first run'
                    out[key] = {"confirmed": m.group(3) == "confirmed", "exit": m.group(4), "signatures": m.group(6)}
    return out


def needs(notes):
    text = notes.strip()
    m = re.search(r"(?is)(what is needed.*?|needed to manifest.*?|to manifest.*?|trigger.*?)\n\s*\n", text)
    return (m.group(0) if m else text[:600]).strip()[:900]


def main():
    args = sys.argv[1:]
    base, offset = "/tmp/seed", 0
    if args and args[0] == "--round2":
        base, offset = "/tmp/seed2", 3
        args = args[1:]
    elif args and args[0] == "--round3":
        base, offset = "/tmp/seed3", 6
        args = args[1:]
    elif args and args[0] == "--round4":
        base, offset = "/tmp/seed4", 9
        args = args[1:]
    elif args and args[0] == "--round5":
        base, offset = "/tmp/seed5", 12
        args = args[1:]
    init = initial_results(args)
    kept = 0
    for cand in sorted(glob.glob(base + "_C*/cand*")):
        pid = os.path.basename(os.path.dirname(cand)).split("_")[1]
        k0 = os.path.basename(cand)[4:]
        k = str(int(k0) + offset)
        res_file = os.path.join(cand, "result.json")
        if not os.path.exists(res_file):
            continue
        try:
            res = json.load(open(res_file, encoding="utf-8"))
        except ValueError:
            continue
        if not res.get("confirmed"):
            continue
        dest = os.path.join(ROOT, "seeded", f"{pid}-{k}")
        os.makedirs(dest, exist_ok=True)
        for name in ("patch.diff", "demo.py", "notes.md"):
            src = os.path.join(cand, name)
            if os.path.exists(src):
                shutil.copy(src, os.path.join(dest, name))
        notes = open(os.path.join(cand, "notes.md"), encoding="utf-8").read() if os.path.exists(os.path.join(cand, "notes.md")) else ""
        first = init.get((pid, f"cand{k0}"))
        meta_path = os.path.join(dest, "meta.json")
        meta = json.load(open(meta_path)) if os.path.exists(meta_path) else {}
        meta.update({
            "id": f"{pid}-{k}",
            "property": pid,
            "origin": "written by an independent sub-agent that saw only the property text and a scratch worktree of /repo",
            "needs_to_manifest": needs(notes),
            "confirmed_by": [
                "scratch worktree of /repo at HEAD (outside /repo and /verif), removed afterwards",
                f"demo.py on the clean tree: exit {res.get('demo_clean_exit')}",
                f"git apply patch.diff; unedited test suite: exit {res.get('suite_exit_with_patch')} ({res.get('suite_tail')})",
                f"demo.py with the patch: exit {res.get('demo_patched_exit')}",
                "tools/try_seed.py <dir> " + pid,
            ],
        })
        if first is not None and "first_run" not in meta:
            meta["first_run"] = {"check": pid, "detected": first["exit"] == "1", "signatures": first["signatures"]}
        json.dump(meta, open(meta_path, "w", encoding="utf-8"), indent=1)
        kept += 1
    print(f"kept {kept} seeded changes under {os.path.join(ROOT, 'seeded')}")


if __name__ == "__main__":
    main()
