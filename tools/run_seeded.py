#!/usr/bin/env python3
"""Run every kept seeded change (seeded/<id>/) against the check of the property it breaks.

usage: run_seeded.py [--only C07-1,...] [--tier quick] [--also C01,C05]   (writes seeded/<id>/meta.json "current")
Each change is applied in a scratch worktree of /repo (never /repo itself), confirmed again (demo, suite) and
the check is run against that worktree through VERIF_REPO. Prints one line per change; exit 1 if any change
that is expected to be detected is missed.
"""
import glob
import json
import os
import subprocess
import sys

ROOT = os.path.dirname(os.path.dirname(os.path.abspath(__file__)))


def main():
    args = sys.argv[1:]
    only = None
    tier = "quick"
    also = []
    if "--only" in args:
        only = set(args[args.index("--only") + 1].split(","))
    if "--tier" in args:
        tier = args[args.index("--tier") + 1]
    if "--also" in args:
        also = args[args.index("--also") + 1].split(",")
    missed = 0
    for d in sorted(glob.glob(os.path.join(ROOT, "seeded", "C*-*"))):
        sid = os.path.basename(d)
        if only and sid not in only:
            continue
        meta_path = os.path.join(d, "meta.json")
        meta = json.load(open(meta_path, encoding="utf-8"))
        checks = [meta["property"]] + [c for c in also if c != meta["property"]]
        proc = subprocess.run([sys.executable, os.path.join(ROOT, "tools", "try_seed.py"), d] + checks + ["--tier", tier], capture_output=True, text=True)
        try:
            res = json.loads(proc.stdout)
        except ValueError:
            print(f"{sid}: driver error: {proc.stdout[-300:]} {proc.stderr[-300:]}")
            missed += 1
            continue
        own = res["checks"].get(meta["property"], {})
        detected = own.get("exit") == 1
        meta["current"] = {
            "tier": tier,
            "still_confirmed": res["confirmed"],
            "detected": detected,
            "signatures": own.get("signatures", []),
            "other_checks": {c: {"exit": v["exit"], "signatures": v["signatures"][:3]} for c, v in res["checks"].items() if c != meta["property"]},
            "harness_error": own.get("harness_error"),
        }
        json.dump(meta, open(meta_path, "w", encoding="utf-8"), indent=1)
        print(f"{sid}: confirmed={res['confirmed']} detected={detected} exit={own.get('exit')} {own.get('signatures', [])[:2]} {own.get('harness_error') or ''}")
        if res["confirmed"] and not detected:
            missed += 1
    return 1 if missed else 0


if __name__ == "__main__":
    sys.exit(main())
