#!/usr/bin/env python3
"""Regenerate /verif/MANIFEST.json from the table below (keeps the file valid at all times).

A property is claimed iff mc/checks/<id>.py exists; otherwise it is listed under not_applicable
with the reason 'check not built yet in this revision'.
"""
import json
import os

ROOT = os.path.dirname(os.path.dirname(os.path.abspath(__file__)))

CHECKS = {
    "C01": ("model_checking", "E1+E2", "explicit-state BFS over event histories on real gateways (versions x serial/MQTT/asyncio), a probe corpus of next lines in every distinct state; plus preemption-bounded schedules of a controller thread / link failure against the poll thread",
            "No exception, pump alive and no effect for rejected lines in every reachable state within the completed depth, for every probe of the corpus.",
            "fake connection / MQTT callbacks; reference validator R-VALID decides 'rejected'; bounded depth and alphabets (DESIGN 5/C01, 8)"),
    "C02": ("exploration", "E5", "bounded-exhaustive input enumeration against an independent codec",
            "Round-trip equations checked on every message/line over the stated alphabets and lengths, and on all 64 copy() field subsets.",
            "alphabets and lengths of DESIGN 5/C02; full Unicode represented by boundary members"),
    "C03": ("exploration", "E5", "exhaustive enumeration of the header grid x boundary payload corpus against an independent reference validator",
            "Verdict of Message.validate / Gateway.logic equals the hand-written reference validator on the whole version x command x sub-type x node x child x ack grid and the per-rule payload corpus; table monotonicity and completeness.",
            "golden tables in mc/ref_valid.py reviewed against the serial API; payload-rule assignment is partly a regression oracle (DESIGN 5/C03)"),
    "C04": ("model_checking", "E1", "explicit-state BFS over 2-node event histories with a reference model in lock-step",
            "Tree equals the reference model's after every step of every history up to the completed depth; callback count/fields/view exact; raising callback changes nothing else.",
            "reference model R-MODEL (appendix A); bounded depth, 2 nodes, 2 children"),
    "C05": ("model_checking", "E1", "explicit-state BFS (single lines, pairs of lines queued before the poll thread runs, controller calls), reply projection compared with the reference model; every emitted line re-validated independently",
            "Per-step emission list equals the prescribed replies for all histories up to the completed depth; every emitted line canonical, valid for the version, correctly addressed.",
            "R-MODEL reply rules; virtual clock with non-zero UTC offset; ack flag prescribed (0) for internal commands only"),
    "C06": ("model_checking", "E1+E2+E4", "explicit-state BFS over id requests / presentations / (failing) ticks / stop-restart on real persistence files with the history variable 'ids handed out'; preemption-bounded schedules of stop() against an id request (serial, MQTT); asyncio restarts with every executor completion order on the virtual loop",
            "No id response outside 1..254, for a known node, or repeating an earlier id, in any history up to the completed depth incl. restarts, both formats.",
            "real files in a scratch directory, fake Timer fired by TICK events"),
    "C07": ("model_checking", "E1", "explicit-state BFS over 2-node histories (with periodic saves and stop/restart on real persistence files in two configurations); invariant on the destination of every emitted line relative to its cause",
            "No line leaves the gateway for a sleeping node unless caused by that node's wake-up (stream excepted), and replies for awake nodes are emitted in their own step, in all histories up to the completed depth (versions 2.0-2.2).",
            "cause = event whose processing returned or enqueued the line (jobs tagged at add_job); node 255 never sleeps"),
    "C08": ("model_checking", "E1+E2", "explicit-state BFS over smart-sleep histories with node-version skew (and periodic saves with persistence on), reference hold-queue and desired-map in lock-step; preemption-bounded schedules of the controller's thread withholding traffic while the poll thread flushes the queue",
            "Wake-up bursts equal the reference hold queue (ordered) plus one set per pending desired value; refusal at call time instead of failure at wake-up; all histories up to the completed depth.",
            "R-MODEL queue rules; refusal for children presented after the last wake-up is UNSPEC"),
    "C09": ("exploration", "E5+E1+E2", "bounded-exhaustive enumeration of image lengths/contents/request orders against independent CRC, HEX writer and reassembly; BFS over request orders for a small image (always-on and smart-sleep node); preemption-bounded schedules of an update call against the poll thread answering requests",
            "Config response and blocks reassemble to image + <=128 bytes of 0xFF, CRC-16/MODBUS matches, echo fields correct, HEX loads exactly, for every enumerated length/content/order.",
            "independent CRC and Intel-HEX writer in mc/ref_codec.py; content families + affinity argument for the CRC"),
    "C10": ("model_checking", "E1+E2(+TLC)", "explicit-state BFS over OTA session histories against a reference session automaton; preemption-bounded schedules of an update call against the poll thread answering requests; TLA+ model whose every TLC edge is replayed on the code",
            "Replies and session phase equal the reference automaton in every history up to the completed depth over 3 nodes, well- and malformed requests.",
            "R-MODEL session automaton; UNSPEC content for out-of-range index and foreign type/version"),
    "C11": ("model_checking", "E1", "explicit-state BFS; in every distinct state save as JSON and pickle with the real code and load into fresh gateways",
            "Type-strict projection of the restored tree equals the original in both formats and across formats; transient state never resurrected; every state up to the completed depth.",
            "real files in a scratch directory"),
    "C12": ("fault_enumeration", "E3", "every file operation of a save as crash point (x loss modes x torn writes) and as failing operation (once, and persistently for the rest of the save), over prior disk configurations, both formats",
            "Loaded state after every enumerated crash/fault is old or new, never anything else; next save succeeds.",
            "file model: per-file durable/volatile bytes at write-call granularity; directory operations atomic, ordered, durable"),
    "C13": ("fault_enumeration", "E3", "every truncation offset and zero-fill of main x backup variants, both formats",
            "start_persistence never raises and yields main's state, else backup's, else empty, for every enumerated damage pattern.",
            "damage model: truncation and zero-fill only"),
    "C14": ("model_checking", "E1+E4+E2", "explicit-state BFS with (failing) ticks at every position (and start_persistence() deferred behind traffic in two configurations); stop()+fresh start evaluated in every distinct state, threaded gateway and asyncio gateway on the virtual loop; asyncio application coroutines (all step sequences with and without yields to the loop) ended by stop(); preemption-bounded schedules of threaded stop() against a message still being handled",
            "Projection before stop() equals projection after restart in every state up to the completed depth, 5 versions x 2 formats.",
            "real files, fake Timer"),
    "C15": ("fault_enumeration", "E3+E2+E4", "fault at every operation of every save in a tick sequence, and pairs of faults in two consecutive saves (sync and asyncio); every schedule up to the preemption bound of a save against one or two concurrent messages",
            "After every enumerated failing save: previous file loadable, state still dirty, schedule alive, next save persists the current state.",
            "fake Timer / virtual loop; fault = OSError at one file operation"),
    "C16": ("model_checking", "E2", "stateless exploration of thread interleavings at source-line granularity with preemption bounding (CHESS-style) on the real SyncTransport/SyncTasks/TCPTransport code, ten harnesses",
            "No schedule up to the preemption bound makes send raise, write twice, or write to a closed connection; queued commands sent exactly once in order.",
            "baton scheduler over sys.settrace line events; fake connection objects; bound reported in evidence"),
    "C17": ("model_checking", "E5+E1", "bounded-exhaustive prefix x message x qos round trips and topic acceptance against an independent topic codec; BFS over subscription histories",
            "Round trip reproduces the command, acceptance iff prefix + five levels, subscriptions cover required topics, raising callbacks never stop the pump, over the stated grids and histories.",
            "independent topic codec; MQTT wildcard matching by the harness"),
    "C18": ("exploration", "E5", "exhaustive enumeration of option subsets for six gateway classes and of 260+ version strings against the numeric floor rule",
            "Every option subset constructs and takes effect; every version string selects the numeric floor version, in both construction orders.",
            "effect probes on fake devices"),
    "C19": ("model_checking", "E1/E4", "all segmentations (<=2 cuts, bytewise, 120-byte) of byte streams x pump schedules x flavours (asyncio protocol, threaded protocol, real TCP reader loop), differential against a whole-line reference run",
            "Final state and ordered emissions identical for every enumerated segmentation, schedule and flavour.",
            "stream alphabet of DESIGN 5/C19"),
    "C20": ("model_checking", "E2+E4", "BFS over environment-event sequences up to a deviation bound on the virtual loop (asyncio kinds); environment scripts under the controlled scheduler (threaded kinds, real connect/reader/poll threads); probe-latency patterns on a virtual clock for both flavours",
            "Callback, attempt and write counters and virtual-time bounds hold for every enumerated environment sequence.",
            "fake devices per appendix B; virtual clock"),
}


def main():
    checks = []
    na = []
    for pid in sorted(CHECKS):
        level, engine, technique, text, note = CHECKS[pid]
        path = os.path.join(ROOT, "mc", "checks", f"{pid.lower()}.py")
        if not os.path.exists(path):
            na.append({"property_id": pid, "reason": "check not built yet in this revision (planned, see DESIGN.md section 5); not claimed until it runs"})
            continue
        checks.append(
            {
                "property_id": pid,
                "quick_cmd": f"./check {pid} --tier quick",
                "thorough_cmd": f"./check {pid} --tier thorough",
                "evidence_file": f"/verif/evidence/{pid}.json",
                "replay_cmd_template": "./check --replay {path}",
                "engine": engine,
                "level_claimed": {"category": level, "text": text, "design_ref": f"DESIGN.md section 5/{pid}"},
                "level_note": note,
                "technique": technique,
            }
        )
    manifest = {
        "version": 1,
        "setup_cmd": "./check --selftest",
        "hooks": {
            "guard": "PYMYSENSORS_VERIF",
            "enable": "no source hooks: every seam is reached by rebinding module-level names from the harness; ./check exports PYMYSENSORS_VERIF=1 for completeness",
            "baseline_off_cmd": "cd /repo && /venv/bin/python -m pytest -ra -q -p no:cacheprovider --timeout=900 --continue-on-collection-errors",
            "source_commits": [],
            "add_only": True,
        },
        "engines": [
            {"name": "E1", "path": "mc/explore.py", "serves_properties": ["C01", "C04", "C05", "C06", "C07", "C08", "C10", "C11", "C14", "C17", "C19"], "kind_free_text": "explicit-state BFS over event histories replayed on real gateways, canonical state matching"},
            {"name": "E2", "path": "mc/sched.py", "serves_properties": ["C01", "C06", "C08", "C09", "C10", "C14", "C15", "C16", "C20"], "kind_free_text": "controlled thread scheduler, preemption-bounded stateless exploration"},
            {"name": "E3", "path": "mc/fsfault.py", "serves_properties": ["C12", "C13", "C15"], "kind_free_text": "file-operation crash/fault enumerator over a real scratch directory"},
            {"name": "E4", "path": "mc/vloop.py", "serves_properties": ["C06", "C10", "C14", "C15", "C20"], "kind_free_text": "virtual asyncio loop, environment events chosen by the explorer"},
            {"name": "E5", "path": "mc/checks", "serves_properties": ["C02", "C03", "C09", "C17", "C18"], "kind_free_text": "bounded-exhaustive input enumeration against independent references"},
        ],
        "checks": checks,
        "not_applicable": na,
        "notes": "All checks run /repo's working tree via ./check (fresh interpreter, PYTHONHASHSEED=0). Known findings: /verif/known_findings.json (known findings: C19 threaded emission order, C20 one dial decided before stop(); 26 fixed entries over 19 fix: commits). Seeded changes and which check catches which: /verif/seeded and DESIGN.md section 12. VERIF_REPO / VERIF_EVIDENCE_DIR are used only by tools/try_seed.py to point a check at a scratch worktree.",
    }
    with open(os.path.join(ROOT, "MANIFEST.json"), "w", encoding="utf-8") as fh:
        json.dump(manifest, fh, indent=1)
        fh.write("\n")
    print(f"claimed: {[c['property_id'] for c in checks]}")
    print(f"not claimed yet: {[n['property_id'] for n in na]}")


if __name__ == "__main__":
    main()
