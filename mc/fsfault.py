"""E3 - file-operation fault and crash enumerator.

Wrappers around ``open`` and the ``os`` functions that ``mysensors.persistence`` uses, operating on a
real scratch directory. They log each mutating operation, keep per file the bytes covered by the
last fsync (durable) versus written since (volatile), and can

* crash: raise a private BaseException at operation k (before it executes; for writes optionally
  after a prefix of the data), after which the directory is rewritten according to a loss mode;
* fail:  make operation k raise OSError(EIO) instead of executing, the process continues.

Directory operations (create, rename, remove) are taken as atomic, ordered and durable.
"""
import builtins
import errno
import os as _os


class CrashNow(BaseException):
    """The process dies here."""


class _FFile:
    def __init__(self, fs, path, mode, encoding, opener=None):
        self.fs = fs
        self.path = path
        self.text = "b" not in mode
        self.encoding = encoding or "utf-8"
        # the real file is opened the way the library asked for it (mode and opener decide about truncation)
        raw_mode = ("a" if "a" in mode else "w") + "b"
        self.raw = builtins.open(path, raw_mode, opener=opener) if opener is not None else builtins.open(path, raw_mode)
        self.closed = False
        self.pybuf = []  # buffered mode: data that has not been handed to the OS yet
        fs.fds[self.raw.fileno()] = self
        fs.info[path] = {"durable": 0, "writes": []}

    def write(self, data):
        raw = data.encode(self.encoding, "surrogatepass") if isinstance(data, str) else bytes(data)
        cut = self.fs.point(("write", _os.path.basename(self.path), len(raw)))
        if cut is not None:
            # torn write: a prefix reaches the file, then the process dies
            part = raw[:cut]
            if part:
                self.raw.write(part)
                self.raw.flush()
                self.fs.info[self.path]["writes"].append(len(part))
            self.fs.die()
        if self.fs.crashed:
            return len(data)
        if self.fs.buffered:
            # user-space buffer: reaches the OS at flush()/close() only; lost when the process dies
            self.pybuf.append(raw)
            return len(data)
        self.raw.write(raw)
        self.raw.flush()
        self.fs.info[self.path]["writes"].append(len(raw))
        return len(data)

    def _drain(self):
        for raw in self.pybuf:
            self.raw.write(raw)
            self.fs.info[self.path]["writes"].append(len(raw))
        self.pybuf = []
        self.raw.flush()

    def flush(self):
        self.fs.point(("flush", _os.path.basename(self.path)))
        if not self.fs.crashed and self.fs.buffered:
            self._drain()

    def fileno(self):
        return self.raw.fileno()

    def close(self):
        if self.closed:
            return
        try:
            self.fs.point(("close", _os.path.basename(self.path)))
            if not self.fs.crashed and self.fs.buffered:
                self._drain()
        finally:
            self.closed = True
            self.fs.fds.pop(self.raw.fileno(), None)
            self.raw.close()

    def __enter__(self):
        return self

    def __exit__(self, *exc):
        self.close()
        return False


class _OsProxy:
    """Stands in for the ``os`` module inside mysensors.persistence."""

    def __init__(self, fs):
        self._fs = fs
        self.path = _os.path

    def __getattr__(self, name):
        return getattr(_os, name)

    def fsync(self, fd):
        fs = self._fs
        ff = fs.fds.get(fd)
        name = _os.path.basename(ff.path) if ff else "?"
        fs.point(("fsync", name))
        if fs.crashed or ff is None:
            return
        info = fs.info[ff.path]
        info["durable"] += sum(info["writes"])
        info["writes"] = []

    def rename(self, src, dst):
        fs = self._fs
        fs.point(("rename", _os.path.basename(src), _os.path.basename(dst)))
        if fs.crashed:
            return
        _os.rename(src, dst)
        if src in fs.info:
            fs.info[dst] = fs.info.pop(src)
        else:
            fs.info.pop(dst, None)

    replace = rename

    def remove(self, path):
        fs = self._fs
        fs.point(("remove", _os.path.basename(path)))
        if fs.crashed:
            return
        _os.remove(path)
        fs.info.pop(path, None)

    unlink = remove


class FaultFS:
    """mode: 'record' | 'crash' | 'fail'; at: operation index; cut: bytes of a torn write (crash only)."""

    def __init__(self, mode="record", at=None, cut=None, at_name=None, buffered=False, persistent=False):
        self.mode = mode
        self.persistent = persistent  # 'fail' only: the operation keeps failing (same kind, same file) until uninstall
        self.failing_op = None
        self.buffered = buffered  # model Python's user-space write buffer (see _FFile.write)
        self.at = at
        self.at_name = at_name  # alternatively: inject at the first operation of this kind (e.g. "fsync")
        self.cut = cut
        self.ops = []
        self.fds = {}
        self.info = {}  # path -> {"durable": n, "writes": [n...]} for files written through us
        self.crashed = False
        self.injected = False
        self.os = _OsProxy(self)

    # -- interposition -----------------------------------------------------------------------

    def open(self, path, mode="r", *args, **kwargs):
        if "w" not in mode and "a" not in mode and "+" not in mode:
            return builtins.open(path, mode, *args, **kwargs)
        self.point(("open", _os.path.basename(path), mode))
        if self.crashed:
            raise CrashNow()
        return _FFile(self, path, mode, kwargs.get("encoding"), kwargs.get("opener"))

    on_point = None  # optional callable(op): lets a thread scheduler treat file operations as scheduling points

    def point(self, op):
        """Called before every mutating operation. Returns a torn-write cut or None."""
        if self.crashed:
            return None
        if self.on_point is not None:
            self.on_point(op)
        idx = len(self.ops)
        self.ops.append(op)
        if self.persistent and self.failing_op is not None and op[:2] == self.failing_op:
            raise OSError(errno.EIO, f"injected I/O error at {op} (persistent)")
        if self.at_name is not None and self.at is None and op[0] == self.at_name and not self.injected:
            self.at = idx
        if self.at is not None and idx == self.at and not self.injected:
            self.injected = True
            if self.mode == "fail":
                if self.persistent:
                    self.failing_op = op[:2]
                raise OSError(errno.EIO, f"injected I/O error at {op}")
            if self.mode == "crash":
                if op[0] == "write" and self.cut:
                    return min(self.cut, max(op[2] - 1, 0)) if self.cut > 0 else None
                self.die()
        return None

    def die(self):
        self.crashed = True
        for ff in list(self.fds.values()):
            try:
                ff.raw.close()
            except OSError:
                pass
        self.fds.clear()
        raise CrashNow()

    def install(self):
        import mysensors.persistence as mod

        self._saved = (mod.__dict__.get("open"), mod.os)
        mod.open = self.open
        mod.os = self.os

    def uninstall(self):
        import mysensors.persistence as mod

        if self._saved[0] is None:
            mod.__dict__.pop("open", None)
        else:
            mod.open = self._saved[0]
        mod.os = self._saved[1]
        for ff in list(self.fds.values()):
            try:
                ff.raw.close()
            except OSError:
                pass
        self.fds.clear()

    # -- loss modes --------------------------------------------------------------------------

    def unsynced_writes(self):
        return max((len(i["writes"]) for i in self.info.values()), default=0)

    def apply_loss(self, loss):
        """Rewrite every file we wrote according to the loss mode ('none', 'drop', 'zero', ('prefix', j))."""
        if loss == "none":
            return
        for path, info in list(self.info.items()):
            if not _os.path.exists(path):
                continue
            with builtins.open(path, "rb") as fh:
                data = fh.read()
            durable = min(info["durable"], len(data))
            if loss == "drop":
                new = data[:durable]
            elif loss == "zero":
                new = data[:durable] + b"\0" * (len(data) - durable)
            else:
                keep = sum(info["writes"][: loss[1]])
                new = data[: durable + keep]
            if new != data:
                with builtins.open(path, "wb") as fh:
                    fh.write(new)


def describe(op):
    return " ".join(str(x) for x in op)
