"""E2 - controlled thread scheduler with preemption bounding (CHESS-style, stateless).

Real threading.Threads run one at a time under a baton (one semaphore per thread). Scheduling
points: sys.settrace line events in a configured set of source files, plus explicit points in the
cooperative Lock/Event/sleep/join and in the fakes. At each point the explorer picks the next
thread; choice 0 is "keep running the current thread if enabled", any other choice while the current
thread is enabled costs one preemption. Depth-first enumeration of choice vectors with an iterative
bound; executions always run to completion (or to the horizon).
"""
import os
import sys
import threading as _threading
import time as _real_time

from .common import HarnessError

ACTIVE = None  # the scheduler of the execution in progress
_orig_start = _threading.Thread.start
_orig_join = _threading.Thread.join
_PATCHED = False


class Abort(BaseException):
    """Unwinds a managed thread when an execution is abandoned (horizon, deadlock)."""


class MThread:
    def __init__(self, tid, name):
        self.tid = tid
        self.name = name
        self.sem = _threading.Semaphore(0)
        self.alive = True
        self.pred = None
        self.deadline = None
        self.exc = None
        self.os_thread = None

    def enabled(self, now):
        if not self.alive:
            return False
        if self.pred is None:
            return True
        if self.deadline is not None and self.deadline <= now:
            return True
        return bool(self.pred())


class Point:
    __slots__ = ("label", "tid", "enabled", "choice", "running_enabled")

    def __init__(self, label, tid, enabled, choice, running_enabled):
        self.label = label
        self.tid = tid
        self.enabled = enabled
        self.choice = choice
        self.running_enabled = running_enabled


class Scheduler:
    def __init__(self, prefix, trace_files=(), horizon=4000):
        self.prefix = list(prefix)
        self.trace_files = tuple(trace_files)
        self.horizon = horizon
        self.threads = []
        self.cur = None
        self.now = 0.0
        self.points = []
        self.choices = []
        self.aborting = False
        self.problem = None  # 'deadlock' | 'horizon' | 'divergence'
        self.finished = _threading.Event()
        self.log = []  # harness observations (appended by fakes)
        self.mutex = _threading.Lock()

    # -- thread management -------------------------------------------------------------------

    def register(self, name):
        t = MThread(len(self.threads), name)
        self.threads.append(t)
        return t

    def _tracer(self, frame, event, arg):
        if event != "call":
            return None
        fname = frame.f_code.co_filename
        if fname.endswith(self.trace_files):
            return self._local
        return None

    def _local(self, frame, event, arg):
        if event == "line" and ACTIVE is self and not self.aborting:
            fname = frame.f_code.co_filename
            self.point(("line", fname[fname.rfind("/") + 1 :], frame.f_lineno, frame.f_code.co_name))
        return self._local

    def thread_main(self, t, fn):
        t.sem.acquire()
        if self.aborting:
            t.alive = False
            self._maybe_finished()
            return
        if self.trace_files:
            sys.settrace(self._tracer)
        try:
            fn()
        except Abort:
            pass
        except BaseException as exc:  # pylint: disable=broad-except
            t.exc = exc
            self.log.append(("thread-exception", t.name, type(exc).__name__, str(exc)[:200], _site(exc)))
        finally:
            sys.settrace(None)
            t.alive = False
            self._handoff_after_exit(t)

    def _maybe_finished(self):
        if not any(t.alive for t in self.threads):
            self.finished.set()

    def _handoff_after_exit(self, me):
        if self.aborting:
            self._release_all()
            self._maybe_finished()
            return
        if not any(t.alive for t in self.threads):
            self.finished.set()
            return
        nxt = self._choose(("exit", me.name), me)
        if nxt is None:
            self._release_all()
            self._maybe_finished()
            return
        self.cur = nxt
        nxt.sem.release()

    def _release_all(self):
        for t in self.threads:
            if t.alive:
                t.sem.release()

    # -- choosing ----------------------------------------------------------------------------

    def _enabled(self, me):
        while True:
            en = [t for t in self.threads if t.enabled(self.now)]
            if en:
                break
            deadlines = [t.deadline for t in self.threads if t.alive and t.deadline is not None]
            if not deadlines:
                return []
            self.now = max(self.now, min(deadlines))
        order = []
        if me is not None and me in en:
            order.append(me)
        order.extend(t for t in en if t is not me)
        return order

    def _choose(self, label, me):
        """Pick the next thread to run at a scheduling point of ``me``. None = abandon."""
        if len(self.points) >= self.horizon:
            self.problem = self.problem or "horizon"
            self.aborting = True
            return None
        order = self._enabled(me)
        if not order:
            self.problem = self.problem or "deadlock"
            self.log.append(("deadlock", [(t.name, "blocked") for t in self.threads if t.alive]))
            self.aborting = True
            return None
        idx = len(self.choices)
        if idx < len(self.prefix):
            choice = self.prefix[idx]
            if choice >= len(order):
                self.problem = "divergence"
                self.aborting = True
                return None
        else:
            choice = 0
        running_enabled = me is not None and me.alive and me in order
        self.points.append(Point(label, me.tid if me else -1, [t.tid for t in order], choice, running_enabled))
        self.choices.append(choice)
        return order[choice]

    def point(self, label):
        """A scheduling point of the current thread (which stays enabled unless it set a pred)."""
        me = self.cur
        if me is None or _threading.current_thread() is not me.os_thread:
            return  # not a managed thread (should not happen), ignore
        if self.aborting:
            raise Abort()
        nxt = self._choose(label, me)
        if nxt is None:
            self._release_all()
            raise Abort()
        if nxt is me:
            return
        self.cur = nxt
        nxt.sem.release()
        me.sem.acquire()
        if self.aborting:
            raise Abort()

    def block(self, pred, label, timeout=None):
        """Block the current thread until pred() holds (or the virtual timeout elapses)."""
        me = self.cur
        if me is None or _threading.current_thread() is not me.os_thread:
            return bool(pred())
        me.pred = pred
        me.deadline = None if timeout is None else self.now + timeout
        try:
            self.point(label)
        finally:
            ok = bool(pred())
            me.pred = None
            me.deadline = None
        return ok

    def sleep(self, seconds, label=("sleep",)):
        self.block(lambda: False, label, timeout=max(seconds, 0.0))

    # -- running -----------------------------------------------------------------------------

    def spawn(self, fn, name):
        t = self.register(name)
        os_thread = _threading.Thread(target=self.thread_main, args=(t, fn), name=f"verif-{name}", daemon=True)
        t.os_thread = os_thread
        _orig_start(os_thread)
        return t

    def run(self, main_fn, real_timeout=30.0):
        global ACTIVE
        ACTIVE = self
        install_thread_patches()
        t0 = self.spawn(main_fn, "main")
        self.cur = t0
        t0.sem.release()
        ok = self.finished.wait(real_timeout)
        ACTIVE = None
        if not ok:
            self.aborting = True
            self._release_all()
            raise HarnessError(f"execution did not finish in {real_timeout}s of real time; threads: {[(t.name, t.alive) for t in self.threads]}")
        for t in self.threads:
            if t.os_thread is not None:
                _orig_join(t.os_thread, 5.0)
        return self


def _site(exc):
    import traceback

    frames = []
    for fs in traceback.extract_tb(exc.__traceback__):
        fname = fs.filename.replace("\\", "/")
        if "/mysensors/" in fname:
            frames.append(f"{fname.rsplit('/mysensors/', 1)[1]}:{fs.name}")
    return frames[-1] if frames else "<outside mysensors>"


# ---------------------------------------------------------------------------------------------
# adoption of library-created threads


def _patched_start(self):
    sched = ACTIVE
    if sched is None or self.name.startswith("verif-"):
        return _orig_start(self)
    target = getattr(self, "_target", None)
    label = getattr(target, "__name__", None) or type(self).__name__
    t = sched.register(f"lib{len(sched.threads)}:{label}")
    t.os_thread = self
    run = self.run

    def managed_run():
        sched.thread_main(t, run)

    self.run = managed_run
    self._verif_mthread = t
    _orig_start(self)
    sched.point(("spawn", t.name))


def _patched_join(self, timeout=None):
    sched = ACTIVE
    t = getattr(self, "_verif_mthread", None)
    if sched is None or t is None:
        return _orig_join(self, timeout)
    if sched.cur is t:
        raise RuntimeError("cannot join current thread")
    sched.block(lambda: not t.alive, ("join", t.name), timeout=timeout)
    return None


def install_thread_patches():
    global _PATCHED
    if _PATCHED:
        return
    _threading.Thread.start = _patched_start
    _threading.Thread.join = _patched_join
    _PATCHED = True


# ---------------------------------------------------------------------------------------------
# cooperative primitives (work trivially when no scheduler is active)


class CoopLock:
    def __init__(self, name="lock"):
        self.owner = None
        self.name = name

    def acquire(self, blocking=True, timeout=-1):
        sched = ACTIVE
        if sched is None:
            if self.owner is not None:
                raise RuntimeError("lock contention without a scheduler")
            self.owner = "unmanaged"
            return True
        sched.point(("lock.acquire", self.name))
        if self.owner is not None:
            if not blocking:
                return False
            got = sched.block(lambda: self.owner is None, ("lock.wait", self.name), timeout=None if timeout is None or timeout < 0 else timeout)
            if not got:
                return False
        self.owner = sched.cur.tid
        return True

    def release(self):
        self.owner = None
        sched = ACTIVE
        if sched is not None:
            sched.point(("lock.release", self.name))

    def locked(self):
        return self.owner is not None

    __enter__ = acquire

    def __exit__(self, *exc):
        self.release()
        return False

    def verif_state(self):
        return (self.owner is not None,)


class CoopEvent:
    def __init__(self):
        self.flag = False

    def is_set(self):
        return self.flag

    isSet = is_set

    def set(self):
        self.flag = True
        sched = ACTIVE
        if sched is not None:
            sched.point(("event.set",))

    def clear(self):
        self.flag = False

    def wait(self, timeout=None):
        sched = ACTIVE
        if sched is None:
            return self.flag
        if self.flag:
            sched.point(("event.wait",))
            return True
        return sched.block(lambda: self.flag, ("event.wait",), timeout=timeout)

    def verif_state(self):
        return (self.flag,)


def coop_sleep(seconds):
    sched = ACTIVE
    if sched is None:
        raise RuntimeError("sleep outside a scheduled execution")
    sched.sleep(seconds)


def vtime():
    sched = ACTIVE
    return sched.now if sched is not None else 0.0


# ---------------------------------------------------------------------------------------------
# exploration


class Result:
    def __init__(self):
        self.executions = 0
        self.points = 0
        self.distinct_points = set()
        self.max_points = 0
        self.problems = {}
        self.bound_completed = None
        self.outcomes = {}


def preemptions(points, upto):
    n = 0
    for p in points[:upto]:
        if p.running_enabled and p.choice != 0:
            n += 1
    return n


def explore(make_run, check, bound, result, max_executions=10**9, deadline=None, roots=None, expand_limit=None):
    """Depth-first enumeration of all schedules with at most ``bound`` preemptions.

    make_run(prefix) -> finished Scheduler (fresh objects every time); check(sched) is called once per
    execution. ``roots``: start from these prefixes instead of the empty one (sub-tree exploration in a
    worker). ``expand_limit``: stop after this many executions and return the unexplored prefixes
    (used to split the tree across workers). Returns (complete, leftover_prefixes).
    """
    stack = [list(r) for r in (roots if roots is not None else [[]])]
    stack.reverse()
    complete = True
    while stack:
        if result.executions >= max_executions or (deadline is not None and _real_time.time() > deadline):
            complete = False
            break
        if expand_limit is not None and result.executions >= expand_limit:
            return True, list(reversed(stack))
        prefix = stack.pop()
        sched = make_run(prefix)
        result.executions += 1
        result.points += len(sched.points)
        result.max_points = max(result.max_points, len(sched.points))
        for p in sched.points:
            result.distinct_points.add((p.tid, p.label))
        if sched.problem == "divergence":
            raise HarnessError(f"schedule diverged while replaying prefix {prefix}")
        if sched.problem:
            result.problems[sched.problem] = result.problems.get(sched.problem, 0) + 1
        check(sched)
        pts = sched.points
        # children: deviate at every point after the prefix
        children = []
        cost = preemptions(pts, len(prefix))
        for i in range(len(prefix), len(pts)):
            p = pts[i]
            for alt in range(1, len(p.enabled)):
                c = cost + (1 if p.running_enabled else 0)
                if c > bound:
                    continue
                children.append(sched.choices[:i] + [alt])
            if p.running_enabled and p.choice != 0:
                cost += 1
        stack.extend(reversed(children))
    return complete, []


# ---------------------------------------------------------------------------------------------
# library shims for scheduled executions

PUMP_TASKS = [None]  # the SyncTasks object whose idle sleep is modelled as blocking


def _pump_idle_sleep(seconds):
    sched = ACTIVE
    tasks = PUMP_TASKS[0]
    if sched is None:
        raise RuntimeError("pump sleep outside a scheduled execution")
    if tasks is None:
        sched.sleep(seconds, ("task.sleep",))
        return
    # an idle iteration (run_job() -> None, send(None) -> early return) has no observable effect,
    # so the pump is blocked until there is work or it is told to stop
    sched.block(lambda: bool(tasks.queue) or tasks._stop_event.is_set(), ("pump.idle",))


TIMERS = []  # fake timers created during the current execution


class RecTimer:
    """Recorded stand-in for threading.Timer inside scheduled executions."""

    def __init__(self, interval, function, args=None, kwargs=None):
        self.interval = interval
        self.function = function
        self.started = False
        self.cancelled = False
        TIMERS.append(self)

    def start(self):
        self.started = True

    def cancel(self):
        self.cancelled = True


def install_library_shims():
    """Rebind threading/time as seen by the library to the cooperative versions (E2)."""
    import types

    import mysensors.gateway_serial
    import mysensors.gateway_tcp
    import mysensors.task
    import mysensors.transport
    import serial.threaded

    import logging

    logging.disable(logging.CRITICAL)
    install_thread_patches()
    ns = types.SimpleNamespace(Thread=_threading.Thread, Lock=CoopLock, Event=CoopEvent, Timer=RecTimer, current_thread=_threading.current_thread)
    mysensors.transport.threading = ns
    mysensors.task.threading = ns
    serial.threaded.threading = ns
    mysensors.task.time = types.SimpleNamespace(sleep=_pump_idle_sleep, time=vtime)
    # job durations are an environment answer: every job looks slow (0.2 s), so that the code that only runs
    # for slow jobs is part of the explored behaviour
    ticks = [0.0]

    def slow_timer():
        ticks[0] += 0.2
        return ticks[0]

    mysensors.task.timer = slow_timer
    clock = types.SimpleNamespace(sleep=coop_sleep, time=vtime)
    mysensors.gateway_serial.time = clock
    mysensors.gateway_tcp.time = clock
    # an E1 part run earlier in this process may have left its fake clock (bound to a World) in mysensors.handler
    import mysensors.handler

    mysensors.handler.time = _real_time
