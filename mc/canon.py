"""Canonical state keys: a generic walker over the object graph reachable from a gateway.

Two histories are merged by the explorers only if *all* mutable state reachable from the gateway
object is equal, so they have identical futures. The walker is generic (``__dict__`` recursively,
containers element-wise, every scalar paired with its type) rather than a hand-picked field list,
so a change to the library that adds a field cannot silently fall out of the key.
"""
import enum
import functools
import hashlib
import threading
import types
from collections import deque

OPAQUE = set()  # type names the walker could not open (reported in evidence)

_SCALARS = (int, float, str, bytes, bool, type(None), complex)


def _qual(obj):
    return f"{getattr(obj, '__module__', '?')}.{getattr(obj, '__qualname__', getattr(obj, '__name__', type(obj).__name__))}"


def walk(obj, seen=None, skip_attrs=()):
    """Return a nested tuple describing obj. Cycles are cut by first-visit index."""
    if seen is None:
        seen = {}
    return _walk(obj, seen, skip_attrs)


def _walk(obj, seen, skip):
    if isinstance(obj, enum.Enum):
        return ("enum", type(obj).__name__, obj.name, int(obj.value) if isinstance(obj.value, int) else repr(obj.value))
    if isinstance(obj, _SCALARS):
        if isinstance(obj, bytes) and len(obj) > 64:
            return ("bytes", len(obj), hashlib.blake2b(obj, digest_size=8).hexdigest())
        return (type(obj).__name__, obj)
    if isinstance(obj, (types.ModuleType,)):
        return ("module", obj.__name__)
    if isinstance(obj, type):
        return ("class", _qual(obj))
    if isinstance(obj, types.MethodType):
        return ("method", obj.__func__.__qualname__, _walk(obj.__self__, seen, skip))
    if isinstance(obj, (types.FunctionType, types.BuiltinFunctionType, types.MethodDescriptorType, types.WrapperDescriptorType)):
        # closures: include cell contents that are plain data (e.g. captured ids); functions are code
        return ("function", _qual(obj))
    if isinstance(obj, functools.partial):
        return ("partial", _walk(obj.func, seen, skip), _walk(obj.args, seen, skip), _walk(obj.keywords, seen, skip))
    oid = id(obj)
    if oid in seen:
        return ("ref", seen[oid][0])
    # keep every visited object alive for the duration of the walk: temporaries (e.g. the tuples returned by
    # verif_state()) must not be freed and their address reused by a later temporary, which would turn
    # content into a bogus back-reference depending on the allocator's mood
    seen[oid] = (len(seen), obj)
    if isinstance(obj, dict):
        return ("dict", type(obj).__name__, tuple((_walk(k, seen, skip), _walk(v, seen, skip)) for k, v in obj.items()))
    if isinstance(obj, (list, tuple, deque)):
        return (type(obj).__name__, tuple(_walk(x, seen, skip) for x in obj))
    if isinstance(obj, (set, frozenset)):
        return (type(obj).__name__, tuple(sorted((_walk(x, seen, skip) for x in obj), key=repr)))
    if isinstance(obj, bytearray):
        return ("bytearray", bytes(obj))
    if isinstance(obj, threading.Event):
        return ("Event", obj.is_set())
    state_fn = getattr(obj, "verif_state", None)
    if state_fn is not None and callable(state_fn):
        return ("fake", type(obj).__name__, _walk(state_fn(), seen, skip))
    tname = type(obj).__name__
    if tname in ("lock", "RLock", "_RLock"):
        locked = getattr(obj, "locked", None)
        return ("lock", bool(locked()) if callable(locked) else None)
    d = getattr(obj, "__dict__", None)
    if d is not None:
        items = []
        for k, v in d.items():
            if k in skip:
                continue
            items.append((k, _walk(v, seen, skip)))
        slots = getattr(type(obj), "__slots__", ())
        for k in slots if isinstance(slots, (tuple, list)) else (slots,):
            if hasattr(obj, k):
                items.append((k, _walk(getattr(obj, k), seen, skip)))
        return ("obj", _qual(type(obj)), tuple(items))
    OPAQUE.add(_qual(type(obj)))
    return ("opaque", _qual(type(obj)))


def digest(tree):
    return hashlib.blake2b(repr(tree).encode("utf-8", "surrogatepass"), digest_size=12).digest()


# ---------------------------------------------------------------------------------------------
# Type-strict projection of the network tree (what C04/C11/C12/C13/C14 compare)


def tval(x):
    """A value paired with its Python type, recursively (so 1 != '1' != True)."""
    if isinstance(x, dict):
        return ("dict", tuple((tval(k), tval(v)) for k, v in x.items()))
    if isinstance(x, (list, tuple)):
        return (type(x).__name__, tuple(tval(v) for v in x))
    if isinstance(x, enum.Enum):
        return ("int", int(x))  # IntEnum members are stored as ints on the wire and in files
    return (type(x).__name__, x)


def project_child(child):
    return (
        ("id", tval(child.id)),
        ("type", tval(child.type)),
        ("description", tval(child.description)),
        ("values", tuple(sorted(((tval(k), tval(v)) for k, v in child.values.items()), key=repr))),
    )


def project_sensor(sensor, transient=False):
    out = [
        ("sensor_id", tval(sensor.sensor_id)),
        ("type", tval(sensor.type)),
        ("sketch_name", tval(sensor.sketch_name)),
        ("sketch_version", tval(sensor.sketch_version)),
        ("battery_level", tval(sensor.battery_level)),
        ("protocol_version", tval(sensor.protocol_version)),
        ("heartbeat", tval(sensor.heartbeat)),
        ("children", tuple(sorted(((tval(cid), project_child(ch)) for cid, ch in sensor.children.items()), key=repr))),
    ]
    if transient:
        out.append(("new_state", tuple(sorted(((tval(cid), project_child(ch)) for cid, ch in sensor.new_state.items()), key=repr))))
        out.append(("queue", tuple(sensor.queue)))
        out.append(("reboot", tval(sensor.reboot)))
    return tuple(out)


def project_tree(sensors, transient=False):
    """Order-independent, type-strict projection of gateway.sensors."""
    return tuple(sorted(((tval(nid), project_sensor(s, transient)) for nid, s in sensors.items()), key=repr))


# ---------------------------------------------------------------------------------------------
# Structural copy (used only as a *validated shortcut*: a restored world must reproduce the
# canonical key of the fresh one, otherwise the explorer falls back to replaying the history)


class CannotCopy(Exception):
    pass


def struct_copy(obj):
    """Copy plain data and objects-with-__dict__ without going through __reduce__/__getstate__."""
    if isinstance(obj, enum.Enum) or isinstance(obj, _SCALARS):
        return obj
    if isinstance(obj, dict):
        if type(obj) is not dict:
            raise CannotCopy(type(obj))
        return {struct_copy(k): struct_copy(v) for k, v in obj.items()}
    if isinstance(obj, list):
        return [struct_copy(x) for x in obj]
    if isinstance(obj, tuple):
        return tuple(struct_copy(x) for x in obj)
    if isinstance(obj, deque):
        return deque(struct_copy(x) for x in obj)
    if isinstance(obj, set):
        return {struct_copy(x) for x in obj}
    if isinstance(obj, bytearray):
        return bytearray(obj)
    if isinstance(obj, (types.FunctionType, types.BuiltinFunctionType, types.MethodType, types.ModuleType, type)):
        raise CannotCopy(type(obj))
    d = getattr(obj, "__dict__", None)
    if d is None or getattr(type(obj), "__slots__", None):
        raise CannotCopy(type(obj))
    new = object.__new__(type(obj))
    for k, v in d.items():
        new.__dict__[k] = struct_copy(v)
    return new
