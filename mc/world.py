"""Worlds: a real pymysensors gateway closed by fakes, driven one event at a time (engine E1).

Every transition is a call into the implementation: ``protocol.handle_line`` / ``transport.recv``
(which queue ``Gateway.logic``), the real ``SyncTasks._poll_queue`` loop body run to idle,
``set_child_value``, ``update_fw``, the persistence timer function, ``stop()`` + fresh start.
All nondeterminism (clock, timer, threads, devices) is owned by module-namespace shims.
"""
import collections
import os
import shutil
import sys
import threading as _real_threading
import time as _real_time
import traceback
import types

from . import canon
from .ref_codec import intel_hex

CURRENT = None  # the world whose step is executing (shims consult it)
_SHIMS_INSTALLED = False


# ---------------------------------------------------------------------------------------------
# shims


class _FakeTimer:
    """Stand-in for threading.Timer: recorded, fired by the explorer's TICK event."""

    def __init__(self, interval, function, args=None, kwargs=None):
        self.interval = interval
        self.function = function
        self.args = args or ()
        self.kwargs = kwargs or {}
        self.started = False
        self.cancelled = False
        self.fired = False
        if CURRENT is not None:
            CURRENT.timers.append(self)

    def start(self):
        self.started = True

    def cancel(self):
        self.cancelled = True

    def verif_state(self):
        return (self.interval, self.started, self.cancelled, self.fired)


class _FakeThread:
    """Stand-in for threading.Thread in sequential worlds: recorded, never run."""

    def __init__(self, group=None, target=None, name=None, args=(), kwargs=None, daemon=None):
        self.target = target
        self.args = args
        self.kwargs = kwargs or {}
        self.daemon = daemon
        self.started = False
        if CURRENT is not None:
            CURRENT.threads.append(self)

    def start(self):
        self.started = True

    def join(self, timeout=None):
        return None

    def is_alive(self):
        return False

    def verif_state(self):
        return (getattr(self.target, "__qualname__", repr(self.target)), self.started)


class _PumpIdle(Exception):
    pass


class PumpHang(Exception):
    """The real poll loop did not go idle within the real-time guard."""


class _PumpStopEvent:
    """Stand-in for SyncTasks._stop_event in sequential worlds: any idle wait on it ends the pump run."""

    def __init__(self):
        self.flag = False

    def is_set(self):
        return self.flag

    isSet = is_set

    def set(self):
        self.flag = True

    def clear(self):
        self.flag = False

    def wait(self, timeout=None):
        # the loop has nothing to do and waits for the stop signal: that is 'idle'
        self.flag = True
        return True

    def verif_state(self):
        return (self.flag,)


_HANGS_SEEN = [0]


def _alarm(signum, frame):
    _HANGS_SEEN[0] += 1
    raise PumpHang("the poll loop did not go idle within its real-time guard (20 s; 0.25 s once a hang has been seen in this process)")


def _task_sleep(seconds):
    """mysensors.task.time.sleep: the pump's idle sleep. Make the real loop return when idle."""
    world = CURRENT
    if world is None or world.gw is None:
        raise RuntimeError("mysensors.task.time.sleep called outside a world step")
    world.gw.tasks._stop_event.set()


class _Clock:
    """Fake ``time`` module for mysensors.handler with a non-zero UTC offset."""

    @staticmethod
    def time():
        return float(CURRENT.epoch if CURRENT else 0)

    @staticmethod
    def localtime(secs=None):
        base = CURRENT.epoch if secs is None else secs
        return _real_time.gmtime(base + (CURRENT.utc_offset if CURRENT else 0))

    @staticmethod
    def gmtime(secs=None):
        base = CURRENT.epoch if secs is None else secs
        return _real_time.gmtime(base)

    @staticmethod
    def sleep(seconds):
        raise RuntimeError("blocking sleep in a sequential world")

    struct_time = _real_time.struct_time


def install_shims():
    """Rebind the module-level names through which the library reaches time, timers, threads."""
    global _SHIMS_INSTALLED
    if _SHIMS_INSTALLED:
        return
    import mysensors.handler
    import mysensors.task
    import mysensors.transport

    task_time = types.SimpleNamespace(sleep=_task_sleep, time=_real_time.time)
    mysensors.task.time = task_time
    thr = types.SimpleNamespace(
        Timer=_FakeTimer,
        Thread=_FakeThread,
        Event=_real_threading.Event,
        Lock=_real_threading.Lock,
    )
    mysensors.task.threading = thr
    mysensors.transport.threading = types.SimpleNamespace(
        Thread=_FakeThread, Lock=_real_threading.Lock, Event=_real_threading.Event
    )
    mysensors.handler.time = _Clock
    import logging

    logging.disable(logging.CRITICAL)
    _memoize_awesomeversion_once()
    _SHIMS_INSTALLED = True


_AV_DONE = [False]


def _memoize_awesomeversion_once():
    if not _AV_DONE[0]:
        _AV_DONE[0] = True
        _memoize_awesomeversion()


def _memoize_awesomeversion():
    """AwesomeVersion (third party, not under test) spends ~1 ms per comparison re-deriving its
    strategy. Comparisons are pure functions of the two version texts, so results (and raised
    compare exceptions) are memoised per (operator, left text, right type, right text)."""
    from awesomeversion import AwesomeVersion

    def memo(name):
        orig = getattr(AwesomeVersion, name)
        cache = {}

        def wrapper(self, other):
            try:
                key = (str.__str__(self), type(other).__name__, str.__str__(other) if isinstance(other, str) else repr(other))
                hit = cache.get(key)
            except Exception:  # pylint: disable=broad-except
                return orig(self, other)
            if hit is not None:
                if hit[0]:
                    return hit[1]
                raise hit[1]
            try:
                res = orig(self, other)
            except Exception as exc:  # pylint: disable=broad-except
                cache[key] = (False, exc)
                raise
            cache[key] = (True, res)
            return res

        wrapper.__name__ = name
        wrapper.__qualname__ = f"AwesomeVersion.{name}"
        setattr(AwesomeVersion, name, wrapper)

    for name in ("__lt__", "__gt__", "__eq__"):
        memo(name)


# ---------------------------------------------------------------------------------------------
# fakes


class FakeConn:
    """Fake connection object (what ReaderThread / asyncio transport is to the protocol)."""

    def __init__(self, world):
        self._world = world
        self.closed = False
        self.serial = self  # BaseMySensorsProtocol.connection_lost looks at .serial
        self.fail_next_write = False

    def write(self, data):
        if self.closed:
            raise OSError("write on closed connection")
        if self.fail_next_write:
            self.fail_next_write = False
            raise OSError("device error on write (harness)")
        self._world.wire.append(data.decode("utf-8", "surrogatepass") if isinstance(data, bytes) else data)

    def close(self):
        self.closed = True

    def verif_state(self):
        return (self.closed, self.fail_next_write)


class _CauseDeque(collections.deque):
    """The gateway's job queue, remembering for every queued job the event that caused it (C07's 'cause').

    The entries stay exactly what the library put there ((func, args) tuples): code that inspects or compares queued
    jobs sees what it would see without the harness. The cause lives in a side table keyed by entry identity and
    becomes the world's current cause when the entry is taken out."""

    def __init__(self, world, original=None):
        # keep what the library chose for its queue (a bound, items already queued)
        super().__init__(original if original is not None else (), getattr(original, "maxlen", None))
        self._world = world
        self._causes = {}

    def _put(self, item):
        self._causes[id(item)] = (item, self._world.cur_cause)

    def _took(self, item):
        rec = self._causes.pop(id(item), None)
        if rec is not None:
            self._world.cur_cause = rec[1]
        return item

    def append(self, item):
        self._put(item)
        super().append(item)

    def appendleft(self, item):
        self._put(item)
        super().appendleft(item)

    def popleft(self):
        return self._took(super().popleft())

    def pop(self):
        return self._took(super().pop())

    def clear(self):
        self._causes.clear()
        super().clear()

    def verif_state(self):
        return tuple(self)


class Obs:
    """What one step showed."""

    __slots__ = ("exc", "where", "ret", "sent", "wire", "callbacks", "subs", "pubs", "eff_line", "enabled")

    def __init__(self):
        self.exc = None  # None or dict(type, text, frames)
        self.where = None  # 'call' | 'pump'
        self.ret = None
        self.sent = []  # [(string handed to transport.send, cause)]
        self.wire = []
        self.callbacks = []  # [(fields, tree projection as seen from inside the callback)]
        self.subs = []
        self.pubs = []
        self.eff_line = None
        self.enabled = True

    def lines(self):
        return [s for s, _ in self.sent]


def exc_info(exc):
    frames = []
    for fs in traceback.extract_tb(exc.__traceback__):
        fname = fs.filename.replace("\\", "/")
        if "/mysensors/" in fname:
            frames.append(f"{fname.rsplit('/mysensors/', 1)[1]}:{fs.name}")
    return {
        "type": type(exc).__name__,
        "text": str(exc)[:200],
        "frames": frames,
        "site": frames[-1] if frames else "<outside mysensors>",
    }


FW_IMAGES = {
    # key -> bytes; lengths chosen so that block counts stay tiny
    "F1": bytes((i * 7 + 1) & 0xFF for i in range(100)),  # 100 bytes -> 1 page, 8 blocks
    "F2": bytes((i * 13 + 5) & 0xFF for i in range(130)),  # 130 bytes -> 2 pages, 16 blocks
}


class World:
    """One real gateway + fakes. cfg keys: version, transport, flavour, persistence, cb,
    node_cb (unused), in_prefix/out_prefix, epoch, utc_offset, persist_dir."""

    def __init__(self, cfg):
        install_shims()
        self.cfg = dict(cfg)
        self.version = cfg.get("version", "2.2")
        self.transport_kind = cfg.get("transport", "serial")
        self.flavour = cfg.get("flavour", "sync")
        self.persistence = cfg.get("persistence")
        self.cb_kind = cfg.get("cb", "record")
        self.epoch = cfg.get("epoch", 1_700_000_000)
        self.utc_offset = cfg.get("utc_offset", 3 * 3600)
        self.in_prefix = cfg.get("in_prefix", "in")
        self.out_prefix = cfg.get("out_prefix", "out")
        self.timers = []
        self.threads = []
        self.wire = []
        self.cur_cause = None
        self._obs = None
        self.dead = None  # set when the pump died: no further steps are meaningful
        self.dir = None
        self.gw = None
        self.conn = None
        self.pfile = None
        self.restarts = 0
        if self.persistence or cfg.get("need_dir"):
            self.dir = cfg.get("persist_dir") or _fresh_dir()
            if self.persistence:
                self.pfile = os.path.join(self.dir, f"p.{self.persistence}")
                if cfg.get("relpath"):
                    # the persistence file named without a directory part (like the default 'mysensors.pickle'):
                    # the process's working directory is the scratch directory while this world is stepped
                    self.pfile = f"p.{self.persistence}"
                    os.chdir(self.dir)
        self._make_gateway(first=True)

    def verif_state(self):
        """The walker stops here: the world's own bookkeeping is not gateway state."""
        return ()

    # -- construction ------------------------------------------------------------------------

    def _callback(self, msg):
        fields = (msg.node_id, msg.child_id, int(msg.type), msg.ack, int(msg.sub_type), msg.payload)
        view = canon.project_tree(self.gw.sensors) if self.gw is not None else None
        if self._obs is not None:
            self._obs.callbacks.append((fields, view))
        if self.cb_kind == "raise":
            raise RuntimeError("event callback raises (harness)")

    def _pub(self, topic, payload, qos, retain):
        if self._obs is not None:
            self._obs.pubs.append((topic, payload, qos, retain))
        if self.cfg.get("pubsub") == "raise":
            raise RuntimeError("pub callback raises (harness)")

    def _sub(self, topic, callback, qos):
        if qos not in (0, 1, 2):
            raise ValueError("Invalid QoS level.")  # what an MQTT client library does
        if self._obs is not None:
            self._obs.subs.append((topic, qos))
        self.all_subs.append((topic, qos))
        if self.cfg.get("pubsub") == "raise":
            raise RuntimeError("sub callback raises (harness)")

    def _make_gateway(self, first=False):
        global CURRENT
        CURRENT = self
        kwargs = {"protocol_version": self.version}
        if self.cb_kind:
            kwargs["event_callback"] = self._callback
        if self.persistence:
            kwargs["persistence"] = True
            kwargs["persistence_file"] = self.pfile
        self.all_subs = []
        if self.transport_kind == "mqtt":
            from mysensors.gateway_mqtt import AsyncMQTTGateway, MQTTGateway

            cls = MQTTGateway if self.flavour == "sync" else AsyncMQTTGateway
            gw = cls(self._pub, self._sub, in_prefix=self.in_prefix, out_prefix=self.out_prefix, retain=True, **kwargs)
        else:
            from mysensors.gateway_serial import AsyncSerialGateway, SerialGateway

            cls = SerialGateway if self.flavour == "sync" else AsyncSerialGateway
            gw = cls("/dev/verif", **kwargs)
        self.gw = gw
        self.timers = []
        transport = gw.tasks.transport
        if self.transport_kind != "mqtt":
            self.conn = FakeConn(self)
            transport.protocol.connection_made(self.conn)
        real_send = transport.send
        world = self

        def recording_send(message):
            if message and world._obs is not None:
                world._obs.sent.append((message, world.cur_cause))
            return real_send(message)

        transport.send = recording_send
        gw.tasks.queue = _CauseDeque(world, gw.tasks.queue)
        if hasattr(gw.tasks, "_stop_event"):
            gw.tasks._stop_event = _PumpStopEvent()
        self.pstarted = False
        if self.persistence and not self.cfg.get("defer_start"):
            self._start_persistence()

    def _start_persistence(self):
        """start_persistence() of the current gateway object (event 'startp' when the configuration defers it: the
        application may let traffic in before it loads the file)."""
        if self.pstarted:
            return
        self.pstarted = True
        gw = self.gw
        if self.flavour != "sync":
            # sequential async worlds only load (start_persistence proper needs a loop: see vloop checks)
            gw.tasks.persistence.safe_load_sensors()
        else:
            gw.start_persistence()

    # -- stepping ----------------------------------------------------------------------------

    def _pump(self, obs):
        """Run the real poll loop to idle (sync) - async jobs already ran inline."""
        if self.flavour != "sync":
            return
        import signal

        tasks = self.gw.tasks
        guard = _real_threading.current_thread() is _real_threading.main_thread()
        if guard:
            old_handler = signal.signal(signal.SIGALRM, _alarm)
            # a poll loop that hangs hangs everywhere: after the first hang in this process the guard is short
            signal.setitimer(signal.ITIMER_REAL, 20.0 if not _HANGS_SEEN[0] else 0.25)
        try:
            tasks._poll_queue()
        except Exception as exc:  # the poll thread would have died (or never goes idle)
            obs.exc = exc_info(exc)
            obs.where = "pump"
            self.dead = obs.exc
        finally:
            if guard:
                signal.setitimer(signal.ITIMER_REAL, 0)
                signal.signal(signal.SIGALRM, old_handler)
            tasks._stop_event.clear()

    def mqtt_effective(self, line, qos=None):
        """How a line travels over MQTT: five topic levels + payload; ack is derived from qos."""
        parts = line.rstrip("\n").split(";", 5)
        while len(parts) < 6:
            parts.append("")
        levels, payload = parts[:5], parts[5]
        if qos is None:
            qos = 1 if levels[3].strip() == "1" else 0
        topic = self.in_prefix + "/" + "/".join(levels)
        ack = "1" if qos > 0 else "0"
        eff = ";".join(levels[:3] + [ack, levels[4], payload])
        return topic, payload, qos, eff

    def deliver(self, line):
        """Hand one inbound line to the gateway the way the transport would."""
        gw = self.gw
        if self.transport_kind == "mqtt":
            topic, payload, qos, eff = self.mqtt_effective(line)
            if "/" in "".join(line.split(";", 5)[:5]):
                # a '/' inside a header field changes the number of levels: not of the subscribed shape
                eff = None
            gw.tasks.transport.recv(topic, payload, qos)
            return eff
        proto = gw.tasks.transport.protocol
        # byte-level entry point: the line goes through the protocol's own framing and decoding (data_received), the
        # way the reader thread / the event loop hands it over. Text that one '\n'-terminated UTF-8 frame cannot carry
        # (an embedded line break, a lone surrogate) and a half-filled frame buffer fall back to handle_line.
        if "\n" not in line and not getattr(proto, "buffer", None) and hasattr(proto, "data_received"):
            try:
                data = (line + "\n").encode("utf-8")
            except UnicodeEncodeError:
                data = None
            if data is not None:
                proto.data_received(data)
                return line
        proto.handle_line(line)
        return line

    def apply(self, ev):
        """Execute one event on the real code; return Obs."""
        global CURRENT
        CURRENT = self
        if self.cfg.get("relpath") and self.dir:
            os.chdir(self.dir)
        obs = Obs()
        self._obs = obs
        self.wire = obs.wire
        kind = ev[0]
        self.cur_cause = ev
        if self.dead is not None:
            obs.exc = self.dead
            obs.where = "dead"
            return obs
        try:
            if kind == "rx":
                if len(ev) > 2:
                    # the clock is an environment choice of this very step: ("rx", line, epoch, utc_offset)
                    self.epoch, self.utc_offset = ev[2], ev[3]
                obs.eff_line = self.deliver(ev[1])
            elif kind == "bytes":
                # raw bytes into the protocol's framing; ev[2] tells whether the pump runs afterwards
                self.gw.tasks.transport.protocol.data_received(ev[1])
                if len(ev) > 2 and not ev[2]:
                    self._obs = None
                    return obs
            elif kind == "drain":
                pass
            elif kind == "topic":
                # MQTT only: a raw topic as the broker client hands it over (any number of levels)
                self.gw.tasks.transport.recv(ev[1], ev[2], ev[3])
            elif kind == "rx2":
                self.cur_cause = ("rx", ev[1])
                self.deliver(ev[1])
                self.cur_cause = ("rx", ev[2])
                self.deliver(ev[2])
            elif kind == "set":
                obs.ret = self.gw.set_child_value(ev[1], ev[2], ev[3], ev[4], **(dict(ev[5]) if len(ev) > 5 else {}))
            elif kind == "writefail":
                # the next write on the current connection raises OSError (cable pulled, device error)
                if self.conn is not None and not self.conn.closed:
                    self.conn.fail_next_write = True
            elif kind == "reconnect":
                # the (recorded, never run) connect thread the library started after a loss succeeds now
                proto = self.gw.tasks.transport.protocol
                pending = [t for t in self.threads if t.started and not getattr(t, "consumed", False)]
                if proto is not None and pending and (self.conn is None or self.conn.closed):
                    for t in pending:
                        t.consumed = True
                    self.conn = FakeConn(self)
                    proto.connection_made(self.conn)
            elif kind == "fw":
                nids = list(ev[1]) if isinstance(ev[1], (tuple, list)) else ev[1]
                path = self.fw_path(ev[4]) if ev[4] is not None else None
                obs.ret = self.gw.update_fw(nids, ev[2], ev[3], fw_path=path)
                if hasattr(obs.ret, "send"):
                    obs.ret = self._drive(obs.ret)
            elif kind == "metric":
                self.gw.metric = ev[1]
            elif kind == "clock":
                self.epoch = ev[1]
                if len(ev) > 2:
                    self.utc_offset = ev[2]
            elif kind == "tick":
                self.fire_timer()
            elif kind == "tickfail":
                # a scheduled save during which one file operation (ev[1], e.g. "fsync") fails with EIO
                from .fsfault import FaultFS

                fs = FaultFS("fail", at_name=ev[1])
                fs.install()
                try:
                    self.fire_timer()
                finally:
                    fs.uninstall()
            elif kind == "restart":
                self.restart()
            elif kind == "startp":
                self._start_persistence()
            elif kind == "start":
                res = self.gw.start()
                if hasattr(res, "send"):
                    # async flavour: MQTT start() has no real suspension point; drive the coroutine
                    try:
                        res.send(None)
                        raise RuntimeError("async start() suspended in a sequential world")
                    except StopIteration:
                        pass
            else:
                raise ValueError(f"unknown event {ev!r}")
        except Exception as exc:
            obs.exc = exc_info(exc)
            obs.where = "call"
            if kind in ("rx", "rx2") and self.flavour == "async":
                # inline execution: an exception here is what the reader/protocol would see
                obs.where = "pump"
                self.dead = obs.exc
        if obs.where != "pump":
            self._pump(obs)
        if kind == "rx" and len(ev) > 2:
            self.epoch = self.cfg.get("epoch", 1_700_000_000)
            self.utc_offset = self.cfg.get("utc_offset", 3 * 3600)
        self._obs = None
        return obs

    def _drive(self, coro):
        """Run a coroutine of the asyncio flavour to completion on a private virtual loop; executor jobs
        (load_fw runs in the executor) are completed in order."""
        from .vloop import VLoop

        loop = VLoop()
        try:
            task = loop.start(coro)
            guard = 0
            while not task.done() and loop.executor_jobs and guard < 10:
                loop.complete_executor(0)
                guard += 1
            if not task.done():
                raise RuntimeError("coroutine did not finish on the virtual loop")
            return task.result()
        finally:
            loop.shutdown()

    def fw_path(self, key):
        if self.dir is None:
            self.dir = _fresh_dir()
        path = os.path.join(self.dir, f"fw_{key}.hex")
        if key == "missing":
            return os.path.join(self.dir, "no_such_file.hex")
        if not os.path.exists(path):
            with open(path, "w", encoding="utf-8") as fh:
                if key == "invalid":
                    fh.write(":00000001FF\n:10zz\nnot hex at all\n")
                else:
                    fh.write(intel_hex(FW_IMAGES[key]))
        return path

    def live_timer(self):
        for t in reversed(self.timers):
            if t.started and not t.cancelled and not t.fired:
                return t
        return None

    def fire_timer(self):
        t = self.live_timer()
        if t is None:
            return False
        t.fired = True
        t.function(*t.args, **t.kwargs)
        return True

    def restart(self):
        """Clean stop, then a fresh gateway object on the same persistence file."""
        self.gw.stop()
        self.gw.tasks._stop_event.clear()
        self.restarts += 1
        self._make_gateway()

    # -- state -------------------------------------------------------------------------------

    def files(self):
        if not self.dir or not os.path.isdir(self.dir):
            return ()
        out = []
        for name in sorted(os.listdir(self.dir)):
            if name.startswith("fw_"):
                continue
            with open(os.path.join(self.dir, name), "rb") as fh:
                out.append((name, fh.read()))
        return tuple(out)

    def key_tree(self, extra=None):
        tree = (
            canon.walk(self.gw, skip_attrs=("_world",)),
            ("timers", tuple(t.verif_state() for t in self.timers if t.started and not t.cancelled and not t.fired)),
            ("files", tuple((n, canon.digest(b).hex()) for n, b in self.files())),
            ("clock", self.epoch, self.utc_offset),
            ("pstarted", getattr(self, "pstarted", None)),
            ("connect_threads_pending", sum(1 for t in self.threads if t.started and not getattr(t, "consumed", False)) > 0),
            ("dead", repr(self.dead)),
            ("extra", extra),
        )
        return tree

    def key(self, extra=None):
        text = repr(self.key_tree(extra))
        if self.dir:
            text = text.replace(self.dir, "<DIR>")
        import hashlib

        return hashlib.blake2b(text.encode("utf-8", "surrogatepass"), digest_size=12).digest()

    # -- validated snapshot shortcut -----------------------------------------------------------

    def snapshot(self):
        """Copy of the mutable containers of an idle, persistence-free world, or None.

        Only a shortcut: restore() is followed by a canonical-key comparison by the caller; if the
        key differs (state lives somewhere this list does not know) the caller replays instead.
        """
        if self.persistence or self.dead is not None or self.timers or self.gw.tasks.queue:
            return None
        gw = self.gw
        ota = gw.tasks.ota
        try:
            snap = {
                "sensors": canon.struct_copy(gw.sensors),
                "metric": gw.metric,
                "can_log": gw.can_log,
                "t_can_log": gw.tasks.transport.can_log,
                "ota": {name: canon.struct_copy(getattr(ota, name)) for name in ("firmware", "requested", "started", "unstarted")},
                "conn_closed": self.conn.closed if self.conn is not None else None,
                "all_subs": list(self.all_subs),
                "buffer": bytes(getattr(gw.tasks.transport.protocol, "buffer", b"") or b"") if self.conn is not None else None,
            }
        except canon.CannotCopy:
            return None
        return snap

    def restore(self, snap):
        global CURRENT
        CURRENT = self
        gw = self.gw
        ota = gw.tasks.ota
        gw.sensors.clear()
        gw.sensors.update(canon.struct_copy(snap["sensors"]))
        gw.metric = snap["metric"]
        gw.can_log = snap["can_log"]
        gw.tasks.transport.can_log = snap["t_can_log"]
        gw.tasks.queue.clear()
        if hasattr(gw.tasks, "_stop_event"):
            gw.tasks._stop_event.clear()
        for name, val in snap["ota"].items():
            store = getattr(ota, name)
            store.clear()
            store.update(canon.struct_copy(val))
        if self.conn is not None:
            self.conn.closed = snap["conn_closed"]
            proto = gw.tasks.transport.protocol
            if proto is not None and snap["buffer"] is not None and hasattr(proto, "buffer"):
                del proto.buffer[:]
                proto.buffer.extend(snap["buffer"])
        self.all_subs[:] = snap["all_subs"]
        self.dead = None
        self.threads = []
        self.epoch = self.cfg.get("epoch", 1_700_000_000)
        self.utc_offset = self.cfg.get("utc_offset", 3 * 3600)

    def tree(self, transient=False):
        return canon.project_tree(self.gw.sensors, transient)

    def close(self):
        global CURRENT
        if self.cfg.get("relpath"):
            os.chdir("/")
        if self.dir and not self.cfg.get("persist_dir"):
            shutil.rmtree(self.dir, ignore_errors=True)
        self.dir = None
        if CURRENT is self:
            CURRENT = None


_DIR_COUNTER = [0]


def _fresh_dir():
    from .common import scratch_root

    base = os.path.join(scratch_root(), f"verif-pymys-{os.getpid()}")
    os.makedirs(base, exist_ok=True)
    _DIR_COUNTER[0] += 1
    path = os.path.join(base, f"w{_DIR_COUNTER[0]}")
    shutil.rmtree(path, ignore_errors=True)
    os.makedirs(path)
    return path


def cleanup_process_scratch():
    from .common import scratch_root

    shutil.rmtree(os.path.join(scratch_root(), f"verif-pymys-{os.getpid()}"), ignore_errors=True)
