"""The common event alphabet (DESIGN.md section 5). A=1, B=2 are nodes that get presented, U=9 never is."""
from .ref_codec import words_to_hex


def rx(line):
    return ("rx", line)


def lines(version):
    wake = "22" if version in ("2.0", "2.1") else "32"
    d = {
        "PA": f"1;255;0;0;17;{version}",
        "PAo": "1;255;0;0;17;1.4",
        "PA15": "1;255;0;0;17;1.5",
        "PB": f"2;255;0;0;17;{version}",
        "IDR": "255;255;3;0;3;",
        "IDR5": "1;255;3;0;3;",
        "CA0": "1;0;0;0;3;d0",
        "CA0x": "1;0;0;0;6;d1",
        "CA1": "1;1;0;0;29;" if version != "1.4" else "1;1;0;0;14;",
        "CB0": "2;0;0;0;3;",
        "CU0": "9;0;0;0;3;x",
        "SA0": "1;0;1;0;2;1",
        "SA0z": "1;0;1;0;2;0",
        "SA1": "1;1;1;0;22;Min" if version != "1.4" else "1;1;1;0;22;1",
        "SA1t": "1;1;1;0;0;21.5",
        "SB0": "2;0;1;0;2;1",
        "SU": "9;0;1;0;2;1",
        "RA0": "1;0;2;0;2;",
        "RA0k": "1;0;2;1;2;",
        "RA1": "1;1;2;0;22;",
        "RB0": "2;0;2;0;2;",
        "RAx": "1;7;2;0;2;",
        "BAT": "1;255;3;0;0;57",
        "SKN": "1;255;3;0;11;sk",
        "SKV": "1;255;3;0;12;1.0",
        "HBA": "1;255;3;0;22;7",
        "HBB": "2;255;3;0;22;8",
        "PSA": "1;255;3;0;32;500",
        "PSB": "2;255;3;0;32;500",
        "CFG": "1;255;3;0;6;0",
        "CFGB": "2;255;3;0;6;0",
        "CFGU": "9;255;3;0;6;0",
        "TIM": "1;255;3;0;1;",
        "GWR": "0;255;3;0;14;ready",
        "DSC": "9;255;3;0;21;0",
        "LOG": "0;255;3;0;9;x",
        "BAD": "bad",
        "FCA": "1;255;4;0;0;" + words_to_hex(1, 0, 8, 0xABCD, 0x0102),
        "FCB": "2;255;4;0;0;" + words_to_hex(1, 0, 8, 0xABCD, 0x0102),
        "FCU": "9;255;4;0;0;" + words_to_hex(1, 0, 8, 0xABCD, 0x0102),
        "FRA0": "1;255;4;0;2;" + words_to_hex(1, 1, 0),
        "FRA7": "1;255;4;0;2;" + words_to_hex(1, 1, 7),
        "FRB0": "2;255;4;0;2;" + words_to_hex(1, 1, 0),
    }
    d["WA"] = d["HBA"] if wake == "22" else d["PSA"]
    d["WB"] = d["HBB"] if wake == "22" else d["PSB"]
    if version in ("1.4", "1.5"):
        for k in ("HBA", "HBB", "PSA", "PSB", "WA", "WB", "DSC"):
            d.pop(k, None)
    elif version in ("2.0", "2.1"):
        for k in ("PSA", "PSB"):
            d.pop(k, None)
    return d


def invalid_for(version):
    """One frame that is well-formed but not valid for the version."""
    return {
        "1.4": "1;255;3;0;22;7",
        "1.5": "1;255;3;0;22;7",
        "2.0": "1;255;3;0;32;5",
        "2.1": "1;255;3;0;32;5",
        "2.2": "1;255;3;0;34;5",
    }[version]


def events(version, names):
    table = lines(version)
    return [rx(table[n]) for n in names if n in table]


def remap_nodes(evs, node_map):
    """The same events with node ids renamed (boundary ids: the highest valid id 254, its neighbour 253). Node ids enter
    the library through dict keys, max() and a few comparisons with constants - a renamed alphabet reaches the latter."""
    def line(text):
        head = text.split(";", 1)
        if len(head) == 2 and head[0].isdigit() and int(head[0]) in node_map:
            return str(node_map[int(head[0])]) + ";" + head[1]
        return text

    out = []
    for ev in evs:
        if ev and ev[0] == "rx":
            out.append(("rx", line(ev[1])) + tuple(ev[2:]))
        elif ev and ev[0] == "rx2":
            out.append(("rx2", line(ev[1]), line(ev[2])))
        elif ev and ev[0] in ("set", "fw") and isinstance(ev[1], int):
            out.append((ev[0], node_map.get(ev[1], ev[1])) + tuple(ev[2:]))
        else:
            out.append(ev)
    return out
