"""E4 - virtual asyncio loop: own clock, no selector; the harness runs ready handles to quiescence
and then picks one environment event (fire next timer, complete an executor job, answer a
connection attempt, deliver bytes, lose the connection, call stop()).
"""
import asyncio
import heapq
from asyncio import events

from .common import HarnessError


class FakeAsyncTransport:
    """What loop.create_connection / serial_asyncio hands to the protocol."""

    def __init__(self, loop, protocol, kind="tcp"):
        self.loop = loop
        self.protocol = protocol
        self.kind = kind
        self.closed = False
        self.lost_reported = False
        self.writes = []  # (virtual time, bytes, closed flag at write time)
        self.t_made = loop.time()
        self.t_data = []  # virtual times at which the peer's data reached the protocol
        self.fail_next_write = None
        if kind == "serial":
            self.serial = self

    def write(self, data):
        if self.fail_next_write is not None:
            exc, self.fail_next_write = self.fail_next_write, None
            raise exc
        if self.closed:
            # both real transports silently ignore writes after close()
            self.loop.writes_after_close += 1
            return
        self.writes.append((self.loop.time(), bytes(data)))
        self.loop.all_writes.append((self.loop.time(), bytes(data), self))

    def close(self):
        if self.closed:
            return
        self.closed = True
        self.loop.call_soon(self._report_lost, None)

    def is_closing(self):
        return self.closed

    def _report_lost(self, exc):
        if self.lost_reported:
            return
        self.lost_reported = True
        self.closed = True
        self.loop.live_links.discard(self)
        self.protocol.connection_lost(exc)

    def verif_state(self):
        return (self.kind, self.closed, self.lost_reported, len(self.writes))


class VLoop(asyncio.BaseEventLoop):
    def __init__(self):
        super().__init__()
        self._vtime = 0.0
        self.executor_jobs = []  # [(future, func, args)]
        self.conn_requests = []  # [(future, protocol_factory, kind, args)]
        self.attempt_times = []  # virtual time at which each connect attempt started
        self.all_writes = []
        self.writes_after_close = 0
        self.live_links = set()
        self.links_made = []
        self.handler_errors = []
        self.set_exception_handler(self._on_error)
        self.steps = 0

    # -- BaseEventLoop plumbing --------------------------------------------------------------

    def time(self):
        return self._vtime

    def _process_events(self, event_list):
        pass

    def _write_to_self(self):
        pass

    def _on_error(self, loop, context):
        self.handler_errors.append({k: (repr(v) if k != "message" else v) for k, v in context.items()})

    def run_in_executor(self, executor, func, *args):
        fut = self.create_future()
        self.executor_jobs.append((fut, func, args))
        return fut

    async def create_connection(self, protocol_factory, host=None, port=None, **kwargs):
        fut = self.create_future()
        self.conn_requests.append((fut, protocol_factory, "tcp", (host, port)))
        self.attempt_times.append(self.time())
        return await fut

    async def create_serial_connection(self, loop, protocol_factory, *args, **kwargs):
        fut = self.create_future()
        self.conn_requests.append((fut, protocol_factory, "serial", args))
        self.attempt_times.append(self.time())
        return await fut

    # -- driving -----------------------------------------------------------------------------

    def run_ready(self, limit=100000):
        """Run handles until nothing is ready at the current virtual time."""
        events._set_running_loop(self)
        try:
            n = 0
            while True:
                while self._scheduled and self._scheduled[0]._when <= self._vtime:
                    handle = heapq.heappop(self._scheduled)
                    handle._scheduled = False
                    if not handle._cancelled:
                        self._ready.append(handle)
                if not self._ready:
                    break
                handle = self._ready.popleft()
                if not handle._cancelled:
                    handle._run()
                n += 1
                self.steps += 1
                if n > limit:
                    raise HarnessError("virtual loop does not go quiescent")
        finally:
            events._set_running_loop(None)

    def call(self, func, *args):
        """Run a plain function as if called from a loop callback (get_running_loop works)."""
        events._set_running_loop(self)
        try:
            return func(*args)
        finally:
            events._set_running_loop(None)

    def start(self, coro):
        """Create a task for coro and run to quiescence. Returns the task."""
        events._set_running_loop(self)
        try:
            task = self.create_task(coro)
        finally:
            events._set_running_loop(None)
        self.run_ready()
        return task

    def pending_timers(self):
        return sorted((h._when for h in self._scheduled if not h._cancelled))

    def fire_next_timer(self):
        live = [h for h in self._scheduled if not h._cancelled]
        if not live:
            return False
        when = min(h._when for h in live)
        self._vtime = max(self._vtime, when)
        self.run_ready()
        return True

    def advance(self, dt):
        target = self._vtime + dt
        while True:
            live = [h._when for h in self._scheduled if not h._cancelled and h._when <= target]
            if not live:
                break
            self._vtime = max(self._vtime, min(live))
            self.run_ready()
        self._vtime = target
        self.run_ready()

    def complete_executor(self, index=0, exc=None, run=True):
        fut, func, args = self.executor_jobs.pop(index)
        if fut.cancelled():
            # the awaiting task was cancelled; the executor thread still runs the function
            if run and exc is None:
                try:
                    func(*args)
                except Exception:  # pylint: disable=broad-except
                    pass
            self.run_ready()
            return None
        try:
            if exc is not None:
                raise exc
            result = func(*args) if run else None
        except BaseException as err:  # pylint: disable=broad-except
            if not isinstance(err, Exception):
                raise
            fut.set_exception(err)
            self.run_ready()
            return err
        fut.set_result(result)
        self.run_ready()
        return None

    def live_requests(self):
        """Connect attempts that are still waiting for an answer (attempts abandoned by a timeout are dropped)."""
        self.conn_requests = [r for r in self.conn_requests if not r[0].done()]
        return self.conn_requests

    def answer_connection(self, how="ok", index=0):
        self.live_requests()
        fut, factory, kind, args = self.conn_requests.pop(index)
        if fut.cancelled() or fut.done():
            self.run_ready()
            return None
        if how == "ok":
            protocol = factory()
            if protocol is None:
                # what asyncio does with a factory that returns None: connection_made fails, the
                # socket is closed again and the awaiting coroutine gets the AttributeError
                fut.set_exception(AttributeError("'NoneType' object has no attribute 'connection_made'"))
                self.run_ready()
                return None
            transport = FakeAsyncTransport(self, protocol, kind)
            self.live_links.add(transport)
            self.links_made.append(transport)
            # real transports call connection_made via call_soon before the awaiting coroutine resumes
            self.call(protocol.connection_made, transport)
            fut.set_result((transport, protocol))
            self.run_ready()
            return transport
        if how == "refuse":
            if kind == "serial":
                import serial

                fut.set_exception(serial.SerialException("could not open port (harness)"))
            else:
                fut.set_exception(ConnectionRefusedError("connection refused (harness)"))
            self.run_ready()
            return None
        if how == "unreachable":
            import errno

            fut.set_exception(OSError(errno.ENETUNREACH, "Network is unreachable (harness)"))
            self.run_ready()
            return None
        raise ValueError(how)

    def idle(self):
        return not self._ready and not [h for h in self._scheduled if not h._cancelled] and not self.executor_jobs and not self.conn_requests

    def shutdown(self):
        """Cancel whatever is left so that no 'Task was destroyed' noise outlives the scenario."""
        events._set_running_loop(self)
        try:
            for task in asyncio.all_tasks(self):
                task.cancel()
        finally:
            events._set_running_loop(None)
        try:
            self.run_ready()
        except Exception:  # pylint: disable=broad-except
            pass
        self._ready.clear()
        self._scheduled.clear()
        self.close()
