"""Asyncio gateway kinds (serial, TCP) on the virtual loop, driven one environment event at a time."""
import hashlib
import types

from . import canon
from .vloop import VLoop
from .world import exc_info, install_shims

PROBE = b"0;255;3;0;2;\n"
VERSION_REPLY = b"0;255;3;0;2;2.3.2\n"


class AObs:
    def __init__(self):
        self.exc = None
        self.where = None
        self.enabled = True
        self.notes = []


class AsyncWorld:
    """cfg: kind ('serial'|'tcp'), R (reconnect timeout), max_dev (deviation bound)."""

    def __init__(self, cfg):
        install_shims()
        import mysensors.gateway_serial as gs
        import mysensors.gateway_tcp as gt

        self.cfg = dict(cfg)
        self.kind = cfg["kind"]
        self.R = cfg.get("R", 10.0)
        self.max_dev = cfg.get("max_dev", 2)
        self.loop = VLoop()
        loop = self.loop
        self.made = []  # (time, arg is gateway)
        self.lost = []  # (time, exc type name)
        self.attempts = []  # (time started, kind)
        self.attempt_results = []  # (time, 'ok'|'refused'|'timeout')
        self.stalled = []
        self.deviations = 0
        self.user_disconnected = False
        self.stopped = False
        self.stop_exc = None
        self.dead = None
        self.unrequested_losses = 0
        self.events = []
        self.loss_causes = []
        self.library_drops = []  # (link, cause event, time): links closed by the library on its own (watchdog)
        self.stop_time = None
        gt.time = types.SimpleNamespace(time=lambda: loop.time(), sleep=None)
        gs.serial_asyncio = types.SimpleNamespace(create_serial_connection=loop.create_serial_connection)
        if self.kind == "tcp":
            self.gw = gt.AsyncTCPGateway("198.51.100.9", port=5003, reconnect_timeout=self.R, protocol_version="2.2")
        else:
            self.gw = gs.AsyncSerialGateway("/dev/ttyVERIF", reconnect_timeout=self.R, protocol_version="2.2")
        self.gw.on_conn_made = lambda g: self.made.append((loop.time(), g is self.gw))
        self.gw.on_conn_lost = lambda g, exc: self.lost.append((loop.time(), type(exc).__name__ if exc else None, g is self.gw))
        self.seen_requests = 0
        self.start_task = loop.start(self.gw.start())
        self._note_attempts()

    # -- bookkeeping -------------------------------------------------------------------------

    def _note_attempts(self):
        self.attempts = list(self.loop.attempt_times)

    def live_link(self):
        links = [t for t in self.loop.links_made if not t.lost_reported]
        return links[-1] if links else None

    def links_ended(self):
        return [t for t in self.loop.links_made if t.lost_reported]

    def enabled_events(self):
        evs = []
        if self.loop.live_requests():
            evs += [("conn", "ok"), ("conn", "refuse")]
            if self.kind == "tcp":
                evs.append(("conn", "stall"))
                evs.append(("conn", "unreachable"))  # an OSError that is not a ConnectionError (network down, DNS)
        if self.loop.pending_timers():
            evs.append(("timer",))
        link = self.live_link()
        if link is not None and not link.closed:
            evs += [("lost", "error"), ("data",), ("send",), ("send-fail",)]
            if self.kind == "tcp":
                evs.append(("lost", "eof"))  # orderly close by the peer; a serial port has no such thing
        if not self.stopped:
            evs += [("disconnect",), ("stop",)]
        return evs

    # -- stepping ----------------------------------------------------------------------------

    def apply(self, ev):
        obs = AObs()
        if self.dead is not None:
            obs.exc = self.dead
            obs.where = "dead"
            return obs
        if ev not in self.enabled_events():
            obs.enabled = False
            return obs
        cost = 0 if ev in (("conn", "ok"), ("timer",)) else 1
        if self.deviations + cost > self.max_dev and ev[0] != "stop":
            obs.enabled = False
            return obs
        self.deviations += cost
        self.events.append(ev)
        loop = self.loop
        try:
            kind = ev[0]
            if kind == "conn":
                self.seen_requests += 1
                if ev[1] == "stall":
                    fut, factory, k, args = loop.live_requests().pop(0)
                    self.stalled.append(fut)
                    self.attempt_results.append((loop.time(), "stalled"))
                else:
                    loop.answer_connection(ev[1])
                    self.attempt_results.append((loop.time(), ev[1]))
            elif kind == "timer":
                loop.fire_next_timer()
            elif kind == "lost":
                link = self.live_link()
                self.unrequested_losses += 1
                if ev[1] == "eof":
                    # what asyncio does on EOF from the peer: eof_received(), and unless the protocol
                    # asks to keep the transport open, close it -> connection_lost(None)
                    keep = loop.call(link.protocol.eof_received)
                    if not keep:
                        loop.call(link._report_lost, None)
                else:
                    loop.call(link._report_lost, ConnectionResetError("peer reset (harness)"))
                loop.run_ready()
            elif kind == "data":
                link = self.live_link()
                link.t_data.append(loop.time())
                loop.call(link.protocol.data_received, VERSION_REPLY)
                loop.run_ready()
            elif kind == "send":
                loop.call(self.gw.send, "1;0;1;0;2;1\n")
                loop.run_ready()
            elif kind == "send-fail":
                # the next write on the link raises (device error): the library closes the link and re-dials
                link = self.live_link()
                link.fail_next_write = OSError("write failed (harness)")
                self.unrequested_losses += 1
                loop.call(self.gw.send, "1;0;1;0;2;1\n")
                loop.run_ready()
            elif kind == "disconnect":
                self.user_disconnected = True
                loop.call(self.gw.tasks.transport.disconnect)
                loop.run_ready()
            elif kind == "stop":
                self.stopped = True
                self.stop_time = loop.time()
                self.user_disconnected = True
                task = loop.start(self.gw.stop())
                if not task.done():
                    obs.notes.append("stop() did not complete")
                elif task.cancelled():
                    self.stop_exc = "CancelledError"
                    obs.exc = {"type": "CancelledError", "text": "stop() ended with CancelledError", "frames": [], "site": "task.py:stop"}
                    obs.where = "stop"
                elif task.exception() is not None:
                    self.stop_exc = task.exception()
                    obs.exc = exc_info(task.exception())
                    obs.where = "stop"
        except Exception as exc:  # pylint: disable=broad-except
            obs.exc = exc_info(exc)
            obs.where = "call"
            self.dead = obs.exc
        self._note_attempts()
        ended = self.links_ended()
        while len(self.loss_causes) < len(ended):
            cause = ev[0] + ("/" + ev[1] if len(ev) > 1 else "")
            if ev[0] in ("timer", "conn", "data", "send"):
                # nobody asked for this and the environment did not break it: the library gave the link up
                self.library_drops.append((ended[len(self.loss_causes)], cause, self.loop.time()))
            self.loss_causes.append(cause)
        return obs

    # -- state -------------------------------------------------------------------------------

    def key(self, extra=None):
        loop = self.loop
        now = loop.time()
        tree = (
            canon.walk(self.gw, skip_attrs=("_world", "tcp_check_timer", "tcp_disconnect_timer")),
            ("timers", tuple(round(t - now, 6) for t in loop.pending_timers())),
            ("requests", len(loop.live_requests()), len([f for f in self.stalled if not f.done()])),
            ("links", tuple(t.verif_state() for t in loop.links_made if not t.lost_reported)),
            ("counts", len(self.made), len(self.lost), len(loop.links_made), len(self.links_ended())),
            ("flags", self.user_disconnected, self.stopped, self.deviations, self.unrequested_losses),
            ("tcp-timers", round(getattr(self.gw, "tcp_check_timer", now) - now, 6), round(getattr(self.gw, "tcp_disconnect_timer", now) - now, 6)),
            ("dead", repr(self.dead)),
            ("tasks", len([t for t in _all_tasks(loop) if not t.done()])),
            extra,
        )
        text = repr(tree)
        return hashlib.blake2b(text.encode("utf-8", "surrogatepass"), digest_size=12).digest()

    def snapshot(self):
        return None

    def close(self):
        self.loop.shutdown()


def _all_tasks(loop):
    import asyncio

    return asyncio.all_tasks(loop)
