"""C08 - withheld traffic reaches the sleeping node exactly once, in order (E1, model_checking)."""
from .. import alpha, e1check, explore
from ..monitors import GatewayMonitor

PROP = "C08"
NAMES = ["CA0", "CA1", "SA0", "SA0z", "SA1", "SA1t", "RA0", "RA1", "CFG", "TIM", "WA"]
NODE_CFGS = {"equal": "PA", "older14": "PAo", "older15": "PA15", "never": "IDR"}


class C08Spec(explore.Spec):
    prop = PROP

    def configs(self, tier):
        out = []
        for v in ("2.0", "2.1", "2.2"):
            for nc in NODE_CFGS:
                out.append({"version": v, "cb": None, "nodecfg": nc})
        return out

    def make_world(self, cfg):
        wcfg = {k: v for k, v in cfg.items() if k != "nodecfg"}
        return self.world_cls(wcfg)

    def alphabet(self, cfg):
        v = cfg["version"]
        evs = []
        extra = [
            ("set", 1, 0, 2, "0"),
            ("set", 1, 0, 2, "1"),
            ("set", 1, 0, 2, 0),  # values that are falsy in Python are still values
            ("set", 1, 1, 0, ""),
            ("set", 1, 0, "2", "0"),
            ("set", 1, 1, 22, "Max"),
            ("set", 1, 1, 22, "1"),
            ("set", 1, 1, 0, "19"),
            ("set", 1, 0, 47, "txt"),
            ("set", 1, 0, 2, "bad"),
            ("fw", 1, 1, 1, "F1"),
        ]
        for ev in alpha.events(v, NAMES) + extra:
            if ev not in evs:
                evs.append(ev)
        return evs

    def roots(self, cfg):
        t = alpha.lines(cfg["version"])
        first = alpha.rx(t[NODE_CFGS[cfg["nodecfg"]]])
        return [
            (first,),
            (first, alpha.rx(t["CA0"]), alpha.rx(t["SA0"]), alpha.rx(t["WA"])),
            (first, alpha.rx(t["CA0"]), alpha.rx(t["CA1"]), alpha.rx(t["SA0"]), alpha.rx(t["SA1"]), alpha.rx(t["WA"]), alpha.rx(t["CFG"])),
        ]

    def new_monitor(self, cfg):
        return GatewayMonitor(PROP, cfg["version"], {"wake", "replies", "exc"})


RULE = (
    "transition = one event executed on a real gateway from a distinct canonical state; at every wake-up step the "
    "ordered emission list is compared with the reference hold queue (oldest first, each once) followed by one set "
    "per pending desired value of a reported value type (any order); value requests are compared with the pending-or-"
    "reported rule; every set_child_value on a sleeping node is judged by the refusal rule; distinct = canonical state key"
)
ASSUMPTIONS = [
    "serial-like sync world; pump = real _poll_queue body run to idle after every event",
    "node-version configurations: presented equal / presented 1.4 / presented 1.5 / id-assigned only",
    "refusal of a desired value for a child presented after the last wake-up is UNSPEC",
]


def run(tier):
    spec = C08Spec()
    if tier == "quick":
        return e1check.run_e1(spec, tier, depth=4, state_budget=600000, time_budget=150, rule=RULE, assumptions=ASSUMPTIONS)
    return e1check.run_e1(spec, tier, depth=6, state_budget=3000000, time_budget=1800, rule=RULE, assumptions=ASSUMPTIONS)


def replay(data):
    return e1check.replay_history(C08Spec(), data)
