"""C08 - withheld traffic reaches the sleeping node exactly once, in order (E1, model_checking)."""
from .. import alpha, e1check, explore
from ..monitors import GatewayMonitor

PROP = "C08"
NAMES = ["CA0", "CA1", "SA0", "SA0z", "SA1", "SA1t", "RA0", "RA1", "CFG", "TIM", "WA"]
NODE_CFGS = {"equal": "PA", "older14": "PAo", "older15": "PA15", "never": "IDR"}


class C08Spec(explore.Spec):
    prop = PROP

    def configs(self, tier):
        out = []
        for v in ("2.0", "2.1", "2.2"):
            for nc in NODE_CFGS:
                out.append({"version": v, "cb": None, "nodecfg": nc})
        # the periodic save runs between withholding and wake-up: saving must not disturb the live smart-sleep state
        out += [{"version": "2.2", "cb": None, "nodecfg": "equal", "persistence": fmt, "depth": 4} for fmt in ("pickle", "json")]
        return out

    def make_world(self, cfg):
        wcfg = {k: v for k, v in cfg.items() if k != "nodecfg"}
        return self.world_cls(wcfg)

    def alphabet(self, cfg):
        v = cfg["version"]
        if cfg.get("persistence"):
            # two nodes, saves and a stop + fresh start at any position (nodes restored from the file)
            return alpha.events(v, ["WA", "WB", "CFG", "CFGB", "RA0", "SA0"]) + [("set", 1, 0, 2, "0"), ("set", 2, 0, 2, "0"), ("tick",), ("restart",)]
        evs = []
        extra = [
            ("set", 1, 0, 2, "0"),
            ("set", 1, 0, 2, "1"),
            ("set", 1, 0, 2, 0),  # values that are falsy in Python are still values
            ("set", 1, 1, 0, ""),
            ("set", 1, 0, "2", "0"),
            ("set", 1, 1, 22, "Max"),
            ("set", 1, 1, 22, "1"),
            ("set", 1, 1, 0, "19"),
            ("set", 1, 0, 47, "txt"),
            ("set", 1, 0, 2, "bad"),
            ("fw", 1, 1, 1, "F1"),
        ]
        for ev in alpha.events(v, NAMES) + extra:
            if ev not in evs:
                evs.append(ev)
        return evs

    def roots(self, cfg):
        t = alpha.lines(cfg["version"])
        if cfg.get("persistence"):
            return [tuple(alpha.rx(t[n]) for n in ("PA", "CA0", "SA0", "PB", "CB0", "SB0"))]
        first = alpha.rx(t[NODE_CFGS[cfg["nodecfg"]]])
        return [
            (first,),
            (first, alpha.rx(t["CA0"]), alpha.rx(t["SA0"]), alpha.rx(t["WA"])),
            (first, alpha.rx(t["CA0"]), alpha.rx(t["CA1"]), alpha.rx(t["SA0"]), alpha.rx(t["SA1"]), alpha.rx(t["WA"]), alpha.rx(t["CFG"])),
        ]

    def new_monitor(self, cfg):
        return GatewayMonitor(PROP, cfg["version"], {"wake", "replies", "exc"})


RULE = (
    "transition = one event executed on a real gateway from a distinct canonical state; at every wake-up step the "
    "ordered emission list is compared with the reference hold queue (oldest first, each once) followed by one set "
    "per pending desired value of a reported value type (any order); value requests are compared with the pending-or-"
    "reported rule; every set_child_value on a sleeping node is judged by the refusal rule; distinct = canonical state key"
)
ASSUMPTIONS = [
    "serial-like sync world; pump = real _poll_queue body run to idle after every event",
    "node-version configurations: presented equal / presented 1.4 / presented 1.5 / id-assigned only",
    "refusal of a desired value for a child presented after the last wake-up is UNSPEC",
]


# -- part (b): the controller's thread withholds something while the poll thread flushes the node's queue (E2) ------

B_SCENARIOS = {
    # name: controller calls (each ends in a presentation request that is withheld for the sleeping node 1)
    "flush-vs-is_sensor": [("is_sensor", 1, 9)],
    "flush-vs-set-unknown-child": [("set", 1, 9, 2, "1")],
    "flush-vs-two-requests": [("is_sensor", 1, 9), ("is_sensor", 1, 8)],
}
WITHHELD = ["1;255;3;0;6;M\n", "1;255;3;0;1;"]  # config reply; the time reply's payload is the clock


def _b_run_one(name, prefix):
    from .. import sched as S
    from .c16 import Conn

    from mysensors.gateway_serial import SerialGateway

    S.install_library_shims()
    calls = B_SCENARIOS[name]
    gw = SerialGateway("/dev/verif", protocol_version="2.2")
    for line in ("1;255;0;0;17;2.2", "1;0;0;0;3;light", "1;0;1;0;2;1", "1;255;3;0;32;500", "1;255;3;0;6;0", "1;255;3;0;1;"):
        gw.logic(line)  # node 1 asleep, two replies withheld
    gw.tasks.queue.clear()
    sched = S.Scheduler(prefix, trace_files=("mysensors/handler.py", "mysensors/__init__.py"), horizon=5000)
    log = sched.log
    gw.tasks.transport._connect = lambda tr: None
    gw.tasks.transport.protocol.connection_made(Conn(log, "c0"))
    S.PUMP_TASKS[0] = gw.tasks
    proto = gw.tasks.transport.protocol

    def body():
        def pump():
            try:
                gw.tasks._poll_queue()
            except Exception as exc:  # pylint: disable=broad-except
                log.append(("pump-raised", type(exc).__name__, str(exc)[:120], S._site(exc)))

        def controller():
            for call in calls:
                try:
                    if call[0] == "is_sensor":
                        gw.is_sensor(*call[1:])
                    else:
                        gw.set_child_value(*call[1:])
                except Exception as exc:  # pylint: disable=broad-except
                    log.append(("call-raised", type(exc).__name__, str(exc)[:120], S._site(exc)))

        proto.handle_line("1;255;3;0;32;500")  # the wake-up that flushes
        t0 = sched.spawn(pump, "pump")
        t1 = sched.spawn(controller, "controller")
        sched.block(lambda: not t1.alive and (not gw.tasks.queue or not t0.alive), ("join",))
        gw.tasks._stop_event.set()
        sched.block(lambda: all(not t.alive for t in sched.threads[1:]), ("join-rest",))

    sched.run(body)
    # sequential epilogue: one more wake-up; whatever was withheld during the first flush must come out now
    findings = []
    if sched.problem is None and not any(e[0] == "pump-raised" for e in log):
        first = [e[2].decode() for e in log if e[0] == "write"]
        reply = gw.logic("1;255;3;0;32;500")
        second = [reply] if reply else []
        while gw.tasks.queue:
            out = gw.tasks.run_job()
            if out:
                second.append(out)
        both = first + second
        want_requests = len(calls)
        got_requests = sum(1 for x in both if x == "1;255;3;0;19;\n")
        if got_requests != want_requests:
            findings.append(("withheld-not-exactly-once", f"{want_requests} presentation request(s) were withheld for the sleeping node while its queue was being flushed, {got_requests} reached it over this and the next wake-up (first {first}, second {second})"))
        for w in WITHHELD:
            n = sum(1 for x in both if x.startswith(w))
            if n != 1:
                findings.append(("withheld-not-exactly-once", f"withheld reply {w!r} emitted {n} times over two wake-ups"))
        held = [x for x in first if x.startswith(tuple(WITHHELD))]
        if [x[:12] for x in held] != [w[:12] for w in WITHHELD if any(h.startswith(w) for h in held)]:
            findings.append(("withheld-order", f"withheld replies left in the order {held}"))
    sched.findings = findings
    return sched


B_RULE = (
    "poll thread flushing the withheld queue of sleeping node 1 at its wake-up (two replies held) against the controller's "
    "thread calling is_sensor / set_child_value for an unknown child of that node (each withholds one presentation request); "
    "every schedule up to the preemption bound at line granularity of handler.py and __init__.py; then one more wake-up "
    "sequentially; oracle: every withheld line reaches the node exactly once over the two wake-ups, held replies in order"
)


def run(tier):
    from .. import tvp

    spec = C08Spec()

    def post(report):
        cov = tvp.run_scenarios(report, PROP, "c08b", _b_run_one, list(B_SCENARIOS), 1 if tier == "quick" else 2, 240 if tier == "quick" else 900, B_RULE)
        report.coverage["threaded_flush"] = cov
        report.coverage["schedules"] = cov["schedules"]
        report.coverage.setdefault("caps_hit", []).extend(cov["caps_hit"])

    if tier == "quick":
        return e1check.run_e1(spec, tier, depth=4, state_budget=600000, time_budget=600, rule=RULE, assumptions=ASSUMPTIONS, post=post)
    return e1check.run_e1(spec, tier, depth=6, state_budget=3000000, time_budget=1000, rule=RULE, assumptions=ASSUMPTIONS, post=post)


def replay(data):
    if data["replay"].get("kind") == "schedule":
        from .. import tvp

        return tvp.replay_schedule(_b_run_one, data["replay"], PROP)
    return e1check.replay_history(C08Spec(), data)
