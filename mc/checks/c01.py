"""C01 - the message pump cannot be crashed or tricked by input (E1, model_checking).

Phase 1: BFS state graph over an alphabet chosen to reach every kind of state the statement
names. Phase 2: in every distinct state, every line of a probe corpus, then a liveness probe.
"""
import collections

from .. import alpha, e1check, explore
from ..common import Violation, short
from ..monitors import GatewayMonitor
from ..ref_codec import words_to_hex

PROP = "C01"

STATE_NAMES = ["PA", "PAo", "IDR", "CA0", "CA1", "SA0", "SA1", "RA0", "WA", "CFG", "FCA", "FRA0"]


def corpus(version, tier):
    """[(label, line)] - garbage, truncated frames, invalid-for-version, adversarial accepted frames."""
    t = alpha.lines(version)
    out = []

    def add(label, line):
        out.append((label, line))

    # garbage
    for i, line in enumerate([
        "", " ", "\t", ";", ";;;;;", ";;;;;;", "1", "1;2", "1;2;3", "1;2;3;4", "1;2;3;4;5", "1;2;3;4;5;6;7",
        "a;b;c;d;e;f", "1;0;1;0;x;1", "1.0;0;1;0;2;1", "0x1;0;1;0;2;1", "1;0;1;0;2;1;", "\x00", "1;0;1;\x00;2;1",
        "��;0;1;0;2;1", "9" * 5000 + ";0;1;0;2;1", "1;0;1;0;" + "9" * 5000 + ";1", "-1;0;1;0;2;1",
        "1;-1;1;0;2;1", "1;0;-1;0;2;1", "1;0;1;-1;2;1", "1;0;1;0;-1;1", " 1 ; 0 ; 1 ; 0 ; 2 ;1", "1_0;0;1;0;2;1",
        "٣;0;1;0;2;1", "+1;+0;+1;+0;+2;1", "1;0;1;0;2;" + "x" * 400, "None;None;None;None;None;None",
        "1;0;1;0;2;1\r", "1;0;1;0;2;1 \t ",
    ]):
        add(f"garbage{i}", line)
    # truncated frames: every prefix of alphabet frames
    frames = [t[n] for n in ("PA", "CA0", "SA0", "RA0", "CFG", "FCA") if n in t]
    if "WA" in t:
        frames.append(t["WA"])
    step = 1 if tier == "thorough" else 2
    for f in frames:
        for cut in range(1, len(f), step):
            add("truncated", f[:cut])
    # well-formed but invalid for the version: one representative per rejection reason
    last_int = {"1.4": 14, "1.5": 17, "2.0": 28, "2.1": 28, "2.2": 33}[version]
    last_set = {"1.4": 39, "1.5": 46, "2.0": 56, "2.1": 56, "2.2": 56}[version]
    for label, line in [
        ("node256", "256;0;1;0;2;1"), ("child256", "1;256;1;0;2;1"), ("child255set", "1;255;1;0;2;1"),
        ("child255req", "1;255;2;0;2;"), ("internal-child0", "1;0;3;0;6;0"), ("stream-child0", "1;0;4;0;0;00"),
        ("ack2", "1;0;1;2;2;1"), ("cmd5", "1;0;5;0;2;1"), ("cmd-1", "1;0;-1;0;2;1"),
        ("sub-undefined-set", f"1;0;1;0;{last_set + 1};1"), ("sub-undefined-int", f"1;255;3;0;{last_int + 1};1"),
        ("sub-undefined-pres", "1;0;0;0;77;x"), ("sub-undefined-stream", "1;255;4;0;6;00"),
        ("binary2", "1;0;1;0;2;2"), ("percent101", "1;0;1;0;3;101"), ("req-nonempty", "1;0;2;0;2;1"),
        ("battery101", "1;255;3;0;0;101"), ("battery-x", "1;255;3;0;0;x"), ("idreq-nonempty", "255;255;3;0;3;1"),
        ("idresp0", "255;255;3;0;4;0"), ("config-x", "1;255;3;0;6;x"), ("time-x", "1;255;3;0;1;x"),
        ("pres-version-old", "1;255;0;0;17;1.3"), ("pres-version-bad", "1;255;0;0;17;"),
        ("lightlevel101", "1;0;1;0;23;100.01"), ("flowstate-bad", "1;0;1;0;21;on"), ("reboot-nonempty", "1;255;3;0;13;x"),
    ]:
        add("invalid:" + label, line)
    if version != "1.4":
        for label, line in [("rgb5", "1;0;1;0;40;ff000"), ("rgbw-nonhex", "1;0;1;0;41;gg0000ff"), ("speed-bad", "1;0;1;0;22;1")]:
            add("invalid:" + label, line)
    if version >= "2.0":
        for label, line in [("gps2", "1;0;1;0;49;1,2"), ("hb-x", "1;255;3;0;22;x"), ("pf2", "1;0;1;0;56;2"), ("discover-resp-x", "1;255;3;0;21;x")]:
            add("invalid:" + label, line)
    # accepted frames with adversarial payloads
    nodes = [1, 2, 9, 0, 255] if tier == "thorough" else [1, 9]
    ok_cfg = words_to_hex(1, 0, 8, 0xABCD, 0x0102)
    ok_blk = words_to_hex(1, 1, 0)
    hexes = [
        "", "0", "zz", ok_cfg, ok_blk, ok_cfg[:-1], ok_blk[:-1], ok_cfg[:-2], ok_blk + "00", "zz" + ok_blk[2:],
        words_to_hex(1, 1, 65535), words_to_hex(7, 7, 0), words_to_hex(1, 2, 1), "0100", "x" * 400, "٣" * 12, " " + ok_blk,
    ]
    for n in nodes:
        for sub in (0, 1, 2, 3, 4, 5):
            for p in hexes:
                add(f"stream/{sub}", f"{n};255;4;0;{sub};{p}")
        ints = ["", "0", "1", "57", " 7", "-1", "+5", "٣", "abc", "x" * 400, "100", "254", "255", "1e3", "99999999999999999999", "inf", "-Infinity", "1e999", "nan", "87.0"]
        if tier != "thorough":
            ints = ["", "0", "57", " 7", "-1", "٣", "abc", "x" * 400, "255", "inf", "1e999", "nan"]
        internal_subs = [0, 1, 2, 3, 6, 9, 11, 12, 13, 14]
        if version >= "2.0":
            internal_subs += [18, 19, 20, 21, 22, 24]
        if version == "2.2":
            internal_subs += [32, 33]
        for sub in internal_subs:
            for p in ints:
                add(f"internal/{sub}", f"{n};255;3;0;{sub};{p}")
            add(f"internal/{sub}", f"{n};255;3;1;{sub};")
        for p in ["", version, "1.4", "2.2.0", "9.9", "abc", "x" * 400, "2"]:
            add("presentation/node", f"{n};255;0;0;17;{p}")
            add("presentation/node", f"{n};255;0;0;18;{p}")
        add("presentation/node-other-type", f"{n};255;0;0;6;abc")
        children = [0, 1, 7, 254] if tier == "thorough" else [0, 1, 7]
        for c in children:
            for p in ["", "d", "\U0001d11e", "x" * 400]:
                add("presentation/child", f"{n};{c};0;0;3;{p}")
                add("presentation/child", f"{n};{c};0;0;23;{p}")
            for vt, vals in [(2, ["0", "1"]), (0, ["", "21.5", "abc", "x" * 400]), (22, ["Min", "1", "Auto"]), (24, ["", "v"]), (47, ["txt"]), (3, ["0", "100", " 5", "inf", "1e999"])]:
                for val in vals:
                    add("set", f"{n};{c};1;0;{vt};{val}")
                    add("set", f"{n};{c};1;1;{vt};{val}")
                add("req", f"{n};{c};2;0;{vt};")
                add("req", f"{n};{c};2;1;{vt};")
    # de-duplicate, keep order
    seen = set()
    uniq = []
    for label, line in out:
        if line not in seen:
            seen.add(line)
            uniq.append((label, line))
    return uniq


LIVENESS = "9;255;3;0;6;0"


class C01Spec(explore.Spec):
    prop = PROP
    has_at_state = True

    def __init__(self, tier="quick"):
        self.tier = tier
        self._corpus = {}

    def configs(self, tier):
        if tier == "quick":
            pairs = [("1.4", "serial"), ("2.0", "serial"), ("2.2", "serial"), ("2.2", "mqtt")]
        else:
            pairs = [(v, tr) for v in ("1.4", "1.5", "2.0", "2.1", "2.2") for tr in ("serial", "mqtt")]
        out = [{"version": v, "transport": tr, "cb": "record"} for v, tr in pairs]
        if tier == "thorough":
            out += [{"version": v, "transport": "serial", "flavour": "async", "cb": "record"} for v in ("1.4", "2.2")]
            # one configuration is explored a level deeper (the probe corpus makes every state expensive)
            for cfg in out:
                cfg["depth"] = 3 if (cfg["version"], cfg["transport"], cfg.get("flavour")) == ("2.2", "serial", None) else 2
        return out

    def alphabet(self, cfg):
        v = cfg["version"]
        evs = alpha.events(v, STATE_NAMES)
        evs += [
            ("set", 1, 0, 2, "0"),
            ("set", 1, 1, 22, "1"),
            ("set", 1, 0, 24, "a;b"),
            ("set", 1, 0, 24, "x\ny"),
            ("set", 1, 1, 24, "\U0001d11e text "),
            ("fw", 1, 1, 1, "F1"),
        ]
        return evs

    def roots(self, cfg):
        v = cfg["version"]
        t = alpha.lines(v)
        roots = [()]
        if "WA" in t:
            # A asleep, pending desired value, withheld reply, child presented after the wake-up
            roots.append(tuple(alpha.rx(t[n]) for n in ("PA", "CA0", "SA0", "WA")) + (("set", 1, 0, 2, "0"), alpha.rx(t["RA0"]), alpha.rx(t["CA1"])))
            # A id-assigned only (protocol version default), asleep with both children reported
            roots.append(tuple(alpha.rx(t[n]) for n in ("IDR", "CA0", "CA1", "SA1", "WA")) + (("set", 1, 1, 22, "Min"),))
        # A presented with an older version, OTA session offered, reboot flag on
        roots.append(tuple(alpha.rx(t[n]) for n in ("PAo", "CA0", "SA0")) + (("fw", 1, 1, 1, "F1"), alpha.rx(t["FCA"])))
        # OTA session fetching
        roots.append(tuple(alpha.rx(t[n]) for n in ("PA", "CA0")) + (("fw", 1, 1, 1, "F1"), alpha.rx(t["FCA"]), alpha.rx(t["FRA0"])))
        # the id space is used up (node 254 known) and an id request has already been turned down
        roots.append((alpha.rx(f"254;255;0;0;17;{v}"), alpha.rx(t["IDR"])))
        return roots

    def new_monitor(self, cfg):
        return GatewayMonitor(PROP, cfg["version"], {"exc", "noeffect"}, transport=cfg.get("transport", "serial"))

    def get_corpus(self, cfg):
        key = (cfg["version"], self.tier)
        if key not in self._corpus:
            self._corpus[key] = corpus(cfg["version"], self.tier)
        return self._corpus[key]

    def at_state(self, world, monitor, hist, cfg):
        """Every probe of the corpus in this state, then the liveness probe."""
        viols = []
        if world.dead is not None:
            return viols
        probes = self.get_corpus(cfg)
        mqtt = cfg.get("transport") == "mqtt"
        snap = world.snapshot()
        base_key = world.key(None)
        mon_base = monitor
        stats = monitor.stats
        dirty = False

        def fresh():
            nonlocal world, mon_base, snap
            if snap is not None:
                world.restore(snap)
                if world.key(None) == base_key:
                    stats["probe_restores"] += 1
                    return world
                stats["snapshot_fallbacks"] += 1
                snap = None
            world.close()
            world, mon_base, _, _ = explore.build(self, cfg, hist)
            stats["probe_replays"] += 1
            return world

        for label, line in probes:
            if mqtt and "/" in "".join(line.split(";", 5)[:5]):
                continue
            if dirty:
                world = fresh()
                dirty = False
            mon = mon_base.clone()
            mon.last_key = base_key
            ev = ("rx", line)
            obs = world.apply(ev)
            vs = mon.step(world, ev, obs) or []
            stats["probes"] += 1
            stats[f"probe_class:{label.split(':')[0].split('/')[0].rstrip('0123456789')}"] += 1
            after = world.key(None)
            if after != base_key or obs.exc is not None:
                dirty = True
                stats["probes_changing_state"] += 1
            if obs.exc is None:
                # liveness: the pump still answers a config request
                lobs = world.apply(("rx", LIVENESS))
                stats["liveness_probes"] += 1
                if lobs.exc is not None:
                    vs.append(Violation(PROP, f"liveness|{label}|{lobs.exc['type']}@{lobs.exc['site']}", f"after probe {short(line)!r} the liveness probe raised {lobs.exc['type']} at {lobs.exc['site']}", None))
                elif [s.rstrip("\n") for s in lobs.lines()] != ["9;255;3;0;6;M"] and not world.gw.metric is False:
                    vs.append(Violation(PROP, f"liveness|{label}|no-reply", f"after probe {short(line)!r} the liveness probe got {lobs.lines()}", None))
                if world.key(None) != after:
                    dirty = True
            for v in vs:
                v.replay = {"kind": "history", "check": PROP, "cfg": cfg, "history": list(hist) + [ev]}
            viols.extend(vs)
        if mqtt:
            # topics that are not of the subscribed shape (prefix + five levels): a broker can deliver them all the same
            # (wildcard subscriptions of the application, retained messages): no exception, no effect
            pre = world.in_prefix
            for topic in ["", "/", pre, pre + "/", pre + "/1", pre + "/1/1", pre + "/1/1/2", pre + "/1/1/1/1", "/1/1/2", "1", "1/1/1/1/1",
                          pre + "/1/0/1/0/2/9", "other/1/0/1/0/2", pre + "x/1/0/1/0/2", pre + "/a/b/c/d/e", pre + "//////"]:
                for qos in (0, 1):
                    if dirty:
                        world = fresh()
                        dirty = False
                    ev = ("topic", topic, "1", qos)
                    mon = mon_base.clone()
                    mon.last_key = base_key
                    obs = world.apply(ev)
                    vs = mon.step(world, ev, obs) or []
                    stats["probes"] += 1
                    stats["probe_class:mqtt-odd-topic"] += 1
                    if obs.exc is not None or world.key(None) != base_key:
                        dirty = True
                    for v in vs:
                        v.replay = {"kind": "history", "check": PROP, "cfg": cfg, "history": list(hist) + [ev]}
                    viols.extend(vs)
        return viols


RULE = (
    "states = distinct canonical gateway states reached by BFS over the state-building alphabet; in every such state "
    "every line of the probe corpus (garbage, truncated frames, one frame per rejection reason, accepted frames with "
    "adversarial payloads per handler kind x node class x child class) is executed on the real code followed by a "
    "liveness probe; evaluations = probes executed; non-trivial = distinct (state, probe) pairs, i.e. states x corpus size"
)
ASSUMPTIONS = [
    "serial-like world: real SerialGateway/SyncTransport with a fake connection; MQTT world: real MQTTGateway with recording pub/sub callbacks, inbound via transport.recv with topics of the subscribed shape",
    "pump = the real _poll_queue body run to idle after every event; an exception escaping it is 'the poll thread died'",
    "'rejected' is decided by the independent decoder and the reference validator R-VALID; UNSPEC lines are only required not to raise",
    "snapshot/restore of worlds is a validated shortcut (canonical key must match the fresh world, else the history is replayed)",
]


def run(tier):
    from ..common import HarnessError, Report

    spec = C01Spec(tier)
    report = Report(PROP, "model_checking", tier)
    if tier == "quick":
        explore.run(spec, report, tier, 2, 100000, 800)
    else:
        explore.run(spec, report, tier, 3, 2000000, 3600)
    e1check.confirm_all(spec, report)
    part_b = run_part_b(report, tier)
    cov = report.coverage
    wit = cov.get("witnesses", {})
    probes = wit.get("probes", 0)
    cov["rule"] = RULE
    cov["evaluations"] = probes + cov["transitions"] + part_b["schedules"]
    cov["distinct_nontrivial"] = probes
    cov["probe_corpus_sizes"] = {f"{k[0]}/{k[1]}": len(v) for k, v in spec._corpus.items()} or {v: len(corpus(v, tier)) for v in ("1.4", "2.2")}
    cov["sample_probes"] = [short(line, 60) for _, line in corpus("2.2", tier)[::97]][:12]
    cov["controller_thread_vs_pump"] = part_b
    report.assumptions = list(ASSUMPTIONS)
    return report.finish()


def replay(data):
    rep = data["replay"]
    if rep.get("kind") == "schedule":
        sched = _b_run_one(rep["scenario"], list(rep["choices"]))
        bad = [e for e in sched.log if e[0] in ("pump-raised",)]
        print(f"schedule replayed ({len(sched.points)} points); pump exceptions: {bad}")
        if bad:
            print(f"VIOLATION property={PROP} replay=<replayed>")
            return 1
        print("did not reproduce on the current tree")
        return 0
    return e1check.replay_history(C01Spec("thorough"), data)


# -- part (b): controller calls from another thread while the pump processes messages (E2) -----------

B_TRACE = ("mysensors/handler.py", "mysensors/sensor.py", "mysensors/__init__.py")
B_SCENARIOS = {
    # name: (lines queued for the pump, controller calls)
    "wakeup-vs-new-desired-type": (["1;255;3;0;32;500"], [(1, 0, 3, "60")]),
    "wakeup-vs-two-sets": (["1;255;3;0;32;500"], [(1, 0, 3, "60"), (1, 1, 0, "20.5")]),
    "report-vs-set": (["1;0;1;0;3;70", "1;0;2;0;3;"], [(1, 0, 3, "60")]),
    "presentation-vs-set": (["1;2;0;0;3;new child", "1;255;3;0;32;500"], [(1, 0, 2, "0")]),
    # the reader thread reports a link failure while the pump is sending the reply to a config request of B
    "reply-vs-link-failure": (["2;255;3;0;6;0"], "lost-error"),
    "reply-vs-disconnect": (["2;255;3;0;6;0"], "disconnect"),
}


def _b_run_one(name, prefix):
    from .. import sched as S
    from .c16 import Conn

    from mysensors.gateway_serial import SerialGateway

    S.install_library_shims()
    lines, calls = B_SCENARIOS[name]
    gw = SerialGateway("/dev/verif", protocol_version="2.2")
    for line in ("1;255;0;0;17;2.2", "1;0;0;0;4;dimmer", "1;1;0;0;6;temp", "1;0;1;0;2;1", "1;0;1;0;3;50", "1;1;1;0;0;19", "1;255;3;0;32;500"):
        gw.logic(line)
    gw.tasks.queue.clear()
    gw.set_child_value(1, 0, 2, "0")
    trace = B_TRACE if not isinstance(calls, str) else ("mysensors/transport.py",)
    sched = S.Scheduler(prefix, trace_files=trace, horizon=5000)
    log = sched.log
    gw.tasks.transport._connect = lambda tr: None
    gw.tasks.transport.protocol.connection_made(Conn(log, "c0"))
    S.PUMP_TASKS[0] = gw.tasks
    proto = gw.tasks.transport.protocol

    def body():
        def pump():
            try:
                gw.tasks._poll_queue()
            except Exception as exc:  # pylint: disable=broad-except
                log.append(("pump-raised", type(exc).__name__, str(exc)[:120], S._site(exc)))

        def controller():
            if calls == "lost-error":
                try:
                    proto.connection_lost(OSError("read failed (harness)"))
                except Exception as exc:  # pylint: disable=broad-except
                    log.append(("event-raised", type(exc).__name__, str(exc)[:120], S._site(exc)))
                return
            if calls == "disconnect":
                gw.tasks.transport.disconnect()
                return
            for call in calls:
                try:
                    gw.set_child_value(*call)
                except Exception as exc:  # pylint: disable=broad-except
                    log.append(("call-raised", type(exc).__name__, str(exc)[:120], S._site(exc)))

        for line in lines:
            proto.handle_line(line)
        t0 = sched.spawn(pump, "pump")
        t1 = sched.spawn(controller, "controller")
        sched.block(lambda: not t1.alive and (not gw.tasks.queue or not t0.alive), ("join",))
        gw.tasks._stop_event.set()
        sched.block(lambda: all(not t.alive for t in sched.threads[1:]), ("join-rest",))

    sched.run(body)
    return sched


def _b_part(args):
    from .. import sched as S

    name, bound, roots, deadline, limit = args
    res = S.Result()
    found = {}
    outcomes = collections.Counter()

    def check(sched):
        outcomes[tuple(e[0] if e[0] != "write" else e[2] for e in sched.log if e[0] in ("write", "pump-raised", "call-raised"))] += 1
        for e in sched.log:
            if e[0] == "pump-raised":
                npre = S.preemptions(sched.points, len(sched.points))
                sig = f"controller-thread-vs-pump|{name}|pump-raised|{e[1]}@{e[3]}"
                if sig not in found or npre < found[sig][2]:
                    found[sig] = (f"{e[1]}: {e[2]} escaped into the poll thread at {e[3]} while another thread called set_child_value", list(sched.choices), npre)
            if e[0] == "call-raised" and e[1] not in ("ValueError", "MultipleInvalid", "Invalid"):
                found.setdefault(f"controller-thread-vs-pump|{name}|call-raised|{e[1]}@{e[3]}", (f"set_child_value raised {e[1]}: {e[2]}", list(sched.choices), 0))
        if sched.problem in ("deadlock", "horizon"):
            found.setdefault(f"controller-thread-vs-pump|{name}|{sched.problem}", (f"execution ended in {sched.problem}", list(sched.choices), 0))

    complete, leftover = S.explore(lambda p: _b_run_one(name, p), check, bound, res, deadline=deadline, roots=roots, expand_limit=limit)
    return name, complete, leftover, res.executions, res.points, found, len(outcomes)


def run_part_b(report, tier):
    import multiprocessing
    import time

    from ..common import NPROC

    bound = 1 if tier == "quick" else 2
    deadline = time.time() + (240 if tier == "quick" else 1200)
    ctx = multiprocessing.get_context("fork")
    total = collections.Counter()
    per = {}
    with ctx.Pool(NPROC) as pool:
        parts = []
        for name, complete, leftover, execs, points, found, nout in pool.imap(_b_part, [(n, bound, None, deadline, 20) for n in B_SCENARIOS]):
            per[name] = {"schedules": execs, "complete": complete, "distinct_outcomes": nout}
            total["executions"] += execs
            total["points"] += points
            _b_add(report, name, found)
            chunks = [leftover[i::6] for i in range(6)]
            parts += [(name, bound, ch, deadline, None) for ch in chunks if ch]
        for name, complete, leftover, execs, points, found, nout in pool.imap_unordered(_b_part, parts):
            per[name]["schedules"] += execs
            per[name]["complete"] = per[name]["complete"] and complete
            per[name]["distinct_outcomes"] = max(per[name]["distinct_outcomes"], nout)
            total["executions"] += execs
            total["points"] += points
            _b_add(report, name, found)
    return {"preemption_bound": bound, "schedules": total["executions"], "scheduling_decisions": total["points"], "scenarios": per,
            "rule": "pump thread (real _poll_queue with queued lines: wake-up, value report + request, child presentation) against a controller thread calling set_child_value on the sleeping node; every schedule up to the preemption bound at line granularity of handler.py, sensor.py and __init__.py; oracle: nothing escapes into the poll thread"}


def _b_add(report, name, found):
    for sig, (msg, choices, npre) in found.items():
        report.add(Violation(PROP, sig, f"{msg} (schedule with {npre} preemption(s))", {"kind": "schedule", "check": PROP, "scenario": name, "choices": choices}))
