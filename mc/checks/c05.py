"""C05 - every reply is the prescribed one, well-formed and correctly addressed (E1, model_checking)."""
from .. import alpha, e1check, explore
from ..monitors import GatewayMonitor

PROP = "C05"
NAMES = [
    "PA", "PAo", "PB", "IDR", "CA0", "CA1", "CB0", "SA0", "SA1", "SB0", "SU", "RA0", "RA0k", "RA1", "RB0", "RAx",
    "BAT", "WA", "HBA", "GWR", "CFG", "CFGU", "TIM", "DSC", "LOG", "BAD", "CU0",
]
# requests that carry the ack/echo flag, and the gateway's own node id 0 presenting itself and being asked
ACKED = ["1;255;3;1;6;0", "1;255;3;1;1;", "255;255;3;1;3;", "9;255;3;1;6;0"]
NODE0 = ["0;255;0;0;18;{v}", "0;1;0;0;3;", "0;1;1;0;2;1", "0;1;2;0;2;"]


class C05Spec(explore.Spec):
    prop = PROP

    def configs(self, tier):
        out = [{"version": v, "cb": None} for v in ("1.4", "1.5", "2.0", "2.1", "2.2")]
        if tier == "thorough":
            out += [{"version": "2.2", "cb": None, "flavour": "async"}, {"version": "2.2", "cb": None, "transport": "mqtt"}]
        # persistence on: a stop + fresh start in the middle of a conversation (reboot request pending, reply withheld)
        out += [{"version": "2.2", "cb": None, "persistence": fmt, "focus": "restart", "depth": 4} for fmt in ("pickle", "json")]
        out += [{"version": v, "cb": None, "focus": "node0", "depth": 5} for v in (("1.4", "2.2") if tier == "quick" else ("1.4", "1.5", "2.0", "2.1", "2.2"))]
        return out

    def alphabet(self, cfg):
        v = cfg["version"]
        evs = []
        extra = [
            alpha.rx(alpha.invalid_for(v)),
            ("set", 1, 0, 2, "0"),
            ("set", 1, 0, "2", "1"),  # value type given as a numeric string
            ("set", 1, 0, 2, "on"),  # invalid value: must be refused, never emitted
            ("set", 1, 0, 3, 250),
            ("set", 1, 1, 22, "1"),
            alpha.rx(f"253;255;0;0;17;{v}"),
            ("set", 1, 1, 0, "20.5"),
            ("set", 2, 0, 2, "1"),
            ("metric", False),
            ("rx", "1;255;3;0;1;", 86399, -34200),
            ("rx", "2;255;3;0;1;", 2**31 - 1, 10800),
            ("rx", "1;255;3;0;1;", 0, 10800),
        ]
        if cfg.get("flavour") != "async" and cfg.get("transport") != "mqtt":
            # two lines queued before the poll thread runs (one read carrying both): each gets its own reply
            t = alpha.lines(v)
            extra += [
                ("rx2", t["SU"], "8;0;1;0;2;1"),  # two different unknown nodes
                ("rx2", t["SU"], t["RAx"]),  # an unknown node and an unknown child of A
                ("rx2", t["CFG"], t["CFGB"]),
            ]
        extra += [alpha.rx(x) for x in ACKED]
        if cfg.get("focus") == "restart":
            return alpha.events(v, ["SA0", "RA0", "WA", "CFG", "PA"]) + [("fw", 1, 1, 1, "F1"), ("set", 1, 0, 2, "0"), ("tick",), ("restart",)]
        if cfg.get("focus") == "node0":
            # small alphabet around the gateway's own node id 0 (a gateway with local sensors presents as node 0)
            evs = [alpha.rx(x.replace("{v}", v)) for x in NODE0] + alpha.events(v, ["PA", "CA0", "RA0", "CFG", "GWR", "BAT"])
            return evs + [alpha.rx("0;255;3;0;6;0"), alpha.rx("0;255;3;0;11;gw sketch"), alpha.rx("0;2;1;0;2;1")]
        for ev in alpha.events(v, NAMES) + extra:
            if ev not in evs:
                evs.append(ev)
        return evs

    def roots(self, cfg):
        t = alpha.lines(cfg["version"])
        roots = [()]
        if cfg.get("focus") == "restart":
            return [tuple(alpha.rx(t[n]) for n in ("PA", "CA0", "SA0"))]
        if cfg.get("focus"):
            return roots
        if "WA" in t:
            # A presented with an older version, asleep, both children reported; B known
            roots.append(tuple(alpha.rx(t[n]) for n in ("PAo", "CA0", "CA1", "SA0", "WA", "PB", "CB0")))
            # A id-assigned only (never presented), asleep
            roots.append(tuple(alpha.rx(t[n]) for n in ("IDR", "CA0", "CA1", "WA")))
            # A asleep with one child only: children presented afterwards are 'late' until the next wake-up
            roots.append(tuple(alpha.rx(t[n]) for n in ("PA", "CA0", "SA0", "WA")))
        return roots

    def new_monitor(self, cfg):
        return GatewayMonitor(PROP, cfg["version"], {"replies", "valid_emit", "exc"})


RULE = (
    "transition = one event executed on a real gateway from a distinct canonical state; the ordered list of strings "
    "handed to transport.send in that step is compared with the replies the reference model prescribes (ack of replies "
    "masked) and every emitted string is matched against the canonical-line regex, decoded independently, re-validated "
    "by the reference validator for the gateway's version and checked for its destination; distinct = canonical state key"
)
ASSUMPTIONS = [
    "serial-like sync world; pump = real _poll_queue body run to idle after every event",
    "virtual clock with fake UTC offsets +03:00 and -09:30; expected time reply = epoch + offset computed by the harness",
    "internal commands emitted by the gateway carry ack flag 0: the flag asks the receiver for an echo, and the echo of a config/time/id answer is again a valid request (set commands answering a value request are not judged on the flag)",
    "controller values are wire-carriable (no ';', no line breaks) in this alphabet; OTA replies are C10's",
]


def run(tier):
    spec = C05Spec()
    if tier == "quick":
        return e1check.run_e1(spec, tier, depth=4, state_budget=400000, time_budget=600, rule=RULE, assumptions=ASSUMPTIONS)
    return e1check.run_e1(spec, tier, depth=6, state_budget=2000000, time_budget=1200, rule=RULE, assumptions=ASSUMPTIONS)


def replay(data):
    return e1check.replay_history(C05Spec(), data)
