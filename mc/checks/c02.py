"""C02 - wire codec is a faithful, canonical round trip (E5, bounded-exhaustive)."""
import collections
import itertools
import logging

from .. import e5
from ..common import Report, Violation, short
from ..ref_codec import CANON_LINE, Malformed, decode_line

PROP = "C02"
S_CHARS = ["0", "a", "-", " ", "\t", "é", "\U0001d11e", "٣", " ", "　", ";", "\n", "\r"]
FIELD_CHARS = ["0", "1", "-", "+", " ", "_", "٣", "\t", "\x0c", "\x1d"]
# further atoms (encode side and decode payloads up to a shorter length): separators that str.splitlines()
# knows but the wire does not, and text that Unicode normalisation would rewrite
EXTRA_ATOMS = ["\x1d", "\x0c", "\x85", "\u2028", "e\u0301", "\u037e", "\u2126", "\ufb01"]
# characters that are special to formatting / escaping layers an implementation might put between fields and wire
META_ATOMS = ["{", "}", "\\", "n", "0", "%", "s", '"', "'"]
META_PAYLOADS = ["{}", "{0}", "{{x}}", "a{b", "c}d", '{"t":21.5}', "C:\\new\\notes.txt", "\\n", "a\\nb", "\\", "%s", "%(x)s", "100%", "\\r\\n", "\\x00"]
FIELDS = ("node_id", "child_id", "type", "ack", "sub_type", "payload")


def wire_ok(p):
    return ";" not in p and "\n" not in p and "\r" not in p and p == p.rstrip()


def strings(chars, maxlen):
    for n in range(0, maxlen + 1):
        for tup in itertools.product(chars, repeat=n):
            yield "".join(tup)


WIDE_SPELLINGS = [str(2**53 + 1), "+9_007_199_254_740_993", str(10**17 + 1), str(2**64 - 1), "-" + str(2**53 + 1), "000" + str(2**63 + 1), " " + str(2**53 + 3) + " ", str(10**30 + 1)]


def header_values():
    from mysensors.const_22 import Internal, MessageType

    # 2^53+1 and 2^64-1: integers no binary double represents exactly (a decoder that goes through float() rounds them)
    return [-1, 0, 1, 255, 256, 2**31, 2**53 + 1, 2**64 - 1, True, MessageType.set, Internal.I_ID_RESPONSE]


def fields_of(msg):
    return (int(msg.node_id), int(msg.child_id), int(msg.type), int(msg.ack), int(msg.sub_type), msg.payload)


def check_encode(chunk):
    from mysensors.message import Message

    logging.disable(logging.CRITICAL)
    viols, stats, samples = [], collections.Counter(), []
    for head, payload in chunk:
        msg = Message(node_id=head[0], child_id=head[1], type=head[2], ack=head[3], sub_type=head[4], payload=payload)
        stats["encode_cases"] += 1
        want = (int(head[0]), int(head[1]), int(head[2]), int(head[3]), int(head[4]), payload)
        rep = {"kind": "input", "check": PROP, "case": ["encode", [repr(h) for h in head], payload]}
        try:
            line = msg.encode()
        except Exception as exc:  # pylint: disable=broad-except
            viols.append(Violation(PROP, f"encode-raises|{type(exc).__name__}", f"encode of {short(want)} raised {type(exc).__name__}: {short(str(exc))}", rep))
            continue
        if line is None:
            viols.append(Violation(PROP, "encode-fails", f"encode returned None for {short(want)}", rep))
            continue
        if CANON_LINE.match(line) is None:
            viols.append(Violation(PROP, "encode-not-canonical", f"encode of {short(want)} gave {line!r}", rep))
        try:
            back = Message(line)
            got = fields_of(back)
        except ValueError:
            viols.append(Violation(PROP, "encode-decode-rejects", f"decode rejects the encoding {line!r} of {short(want)}", rep))
            continue
        if got != want or type(back.payload) is not str:
            viols.append(Violation(PROP, "encode-decode-differs", f"{short(want)} -> {line!r} -> {short(got)}", rep))
        try:
            ind = decode_line(line)
            if ind != want:
                viols.append(Violation(PROP, "independent-decoder-differs", f"{line!r}: independent decoder {ind}, expected {want}", rep))
        except Malformed:
            viols.append(Violation(PROP, "independent-decoder-rejects", f"{line!r}", rep))
        if payload and not samples:
            samples.append(["encode", [repr(h) for h in head], payload])
    return viols, stats, samples


def check_decode(chunk):
    from mysensors.message import Message

    logging.disable(logging.CRITICAL)
    viols, stats, samples = [], collections.Counter(), []
    for line in chunk:
        stats["decode_cases"] += 1
        rep = {"kind": "input", "check": PROP, "case": ["decode", line]}
        try:
            ind = decode_line(line)
        except Malformed:
            ind = None
        try:
            msg = Message(line)
            got = fields_of(msg)
        except ValueError:
            got = None
        except Exception as exc:  # pylint: disable=broad-except
            viols.append(Violation(PROP, f"decode-raises|{type(exc).__name__}", f"decode of {line!r} raised {type(exc).__name__}", rep))
            continue
        if (got is None) != (ind is None):
            viols.append(Violation(PROP, "accept-reject-differs", f"{line!r}: implementation {'rejects' if got is None else 'accepts'}, independent decoder {'rejects' if ind is None else 'accepts'}", rep))
            continue
        if got is None:
            stats["decode_rejected"] += 1
            continue
        stats["decode_accepted"] += 1
        if got != ind:
            viols.append(Violation(PROP, "decode-fields-differ", f"{line!r}: {got} vs independent {ind}", rep))
        canon = msg.encode()
        if canon is None or CANON_LINE.match(canon) is None:
            viols.append(Violation(PROP, "reencode-not-canonical", f"{line!r} re-encodes to {canon!r}", rep))
            continue
        try:
            again = Message(canon)
        except ValueError:
            viols.append(Violation(PROP, "canonical-line-rejected", f"{line!r} -> {canon!r} does not decode", rep))
            continue
        if fields_of(again) != got:
            viols.append(Violation(PROP, "canonical-line-differs", f"{line!r} -> {canon!r} -> {fields_of(again)}", rep))
        if again.encode() != canon:
            viols.append(Violation(PROP, "canonical-not-fixpoint", f"{canon!r} re-encodes to {again.encode()!r}", rep))
        if not samples:
            samples.append(["decode", line, canon])
    return viols, stats, samples


def check_copy(chunk):
    from mysensors.message import Message

    logging.disable(logging.CRITICAL)
    viols, stats, samples = [], collections.Counter(), []
    repl = {"node_id": [7, 300, True], "child_id": [9, 255, -1], "type": [3, 0, 4], "ack": [1, 0, 2], "sub_type": [47, 0, 99], "payload": ["new", "", "é x"]}
    sentinel = object()
    for base, r in chunk:
        for mask in range(64):
            kw = {f: repl[f][r] for i, f in enumerate(FIELDS) if mask >> i & 1}
            msg = Message(node_id=base[0], child_id=base[1], type=base[2], ack=base[3], sub_type=base[4], payload=base[5], gateway=sentinel)
            cp = msg.copy(**kw)
            stats["copy_cases"] += 1
            rep = {"kind": "input", "check": PROP, "case": ["copy", list(base), sorted(kw)]}
            if cp is msg:
                viols.append(Violation(PROP, "copy-is-same-object", "copy() returned the original", rep))
            for i, f in enumerate(FIELDS):
                want = kw[f] if f in kw else base[i]
                got = getattr(cp, f)
                same = (got == want and (f in kw and type(got) is type(want) or f not in kw)) if f == "payload" else (int(got) == int(want))
                if f in kw and f != "payload":
                    same = got == want and type(got) is type(want)
                if not same:
                    viols.append(Violation(PROP, f"copy-field|{f}|{'replaced' if f in kw else 'kept'}", f"copy({kw}) of {base}: {f} = {got!r}, expected {want!r}", rep))
            if cp.gateway is not sentinel:
                viols.append(Violation(PROP, "copy-gateway", "copy() lost the gateway reference", rep))
            if fields_of(msg) != (int(base[0]), int(base[1]), int(base[2]), int(base[3]), int(base[4]), base[5]):
                viols.append(Violation(PROP, "copy-mutates-original", f"copy({kw}) changed the original {base}", rep))
            # a copy of the copy, and a copy of a DECODED message whose field was assigned afterwards, start from the
            # current field values (not from anything remembered from an earlier decode)
            if mask in (0, 1, 32, 33, 63):
                try:
                    first = fields_of(cp)
                    again = cp.copy(ack=1)
                    want2 = first[:3] + (1,) + first[4:]
                    if fields_of(again) != want2:
                        viols.append(Violation(PROP, "copy-of-copy", f"copy({kw}).copy(ack=1) of {base}: {fields_of(again)}, expected {want2}", rep))
                    line = msg.encode()
                    if line is not None:
                        dec = Message(line)
                        dec.payload = "assigned"
                        dec.sub_type = 40
                        got3 = fields_of(dec.copy(**kw))
                        want3 = tuple((int(kw[f]) if f != "payload" else kw[f]) if f in kw else ({"payload": "assigned", "sub_type": 40}.get(f, fields_of(msg)[i])) for i, f in enumerate(FIELDS))
                        if got3 != want3:
                            viols.append(Violation(PROP, "copy-after-assignment", f"decode({line!r}), assign payload/sub_type, copy({kw}): {got3}, expected {want3}", rep))
                except (ValueError, TypeError):
                    pass  # headers that do not encode (judged elsewhere)
        if not samples:
            samples.append(["copy", list(base)])
    return viols, stats, samples


def run(tier):
    logging.disable(logging.CRITICAL)
    report = Report(PROP, "exploration", tier)
    maxlen = 4 if tier == "quick" else 5
    payloads = [p for p in strings(S_CHARS, maxlen) if wire_ok(p)]
    payloads += [p for p in strings(["a", " "] + EXTRA_ATOMS, 3) if wire_ok(p) and any(x in p for x in EXTRA_ATOMS)]
    payloads += [p for p in strings(META_ATOMS, 3) if wire_ok(p) and any(x in p for x in META_ATOMS[:3])] + META_PAYLOADS
    hv = header_values()
    heads = set()
    base = (1, 0, 1, 0, 2)
    # pairwise-exhaustive over the nine values in the five positions + full product over {-1,0,255,256}
    for i, j in itertools.combinations(range(5), 2):
        for a in range(len(hv)):
            for b in range(len(hv)):
                h = list(base)
                h[i], h[j] = hv[a], hv[b]
                heads.add(tuple((type(x).__name__, int(x), k) for k, x in enumerate(h)))
    head_list = []
    seen = set()
    for i, j in itertools.combinations(range(5), 2):
        for a in hv:
            for b in hv:
                h = list(base)
                h[i], h[j] = a, b
                key = tuple((type(x).__name__, int(x)) for x in h)
                if key not in seen:
                    seen.add(key)
                    head_list.append(tuple(h))
    for h in itertools.product([-1, 0, 255, 256], repeat=5):
        key = tuple((type(x).__name__, int(x)) for x in h)
        if key not in seen:
            seen.add(key)
            head_list.append(tuple(h))
    enc_cases = [(h, "p") for h in head_list] + [(h, p) for h in head_list[:: max(1, len(head_list) // 12)] for p in payloads]
    enc_cases += [(base, p) for p in payloads]
    v1, s1, m1 = e5.pmap(check_encode, enc_cases)
    # decode side
    spellings = [s for s in strings(FIELD_CHARS, 3) if s]
    dec_payloads = [p for p in strings(S_CHARS, 3 if tier == "quick" else 4) if "\n" not in p]
    dec_payloads += [p for p in strings(["a", ";"] + EXTRA_ATOMS, 2) if any(x in p for x in EXTRA_ATOMS)]
    endings = ["", "\n", "\r\n", " \n"]
    lines = []
    for pos in range(5):
        for sp in spellings:
            for other in ("0", "1", "255"):
                parts = [other] * 5
                parts[pos] = sp
                for end in endings:
                    lines.append(";".join(parts) + ";x" + end)
    # wide integers in every position, in several spellings int() accepts (beyond what a double or a machine word holds)
    for pos in range(5):
        for sp in WIDE_SPELLINGS:
            parts = ["1"] * 5
            parts[pos] = sp
            lines.append(";".join(parts) + ";x\n")
    lines.append(";".join(WIDE_SPELLINGS[:5]) + ";x\n")
    for p in dec_payloads:
        for end in endings:
            lines.append("1;0;1;0;2;" + p + end)
    lines += ["", ";", "1;2;3;4;5", "1;2;3;4;5;6;7", "a;b;c;d;e;f", ";;;;;", "1;0;1;0;2", "١;٢;٣;٤;٥;x"]
    v2, s2, m2 = e5.pmap(check_decode, lines)
    # copy(): all 64 subsets x 3 replacement values x 200 base messages
    bases = []
    for n, c, t, a, s_ in itertools.product([0, 1, 255], [0, 255], [0, 1, 3], [0, 1], [0, 2, 47]):
        bases.append((n, c, t, a, s_, "v"))
    for p in payloads[:: max(1, len(payloads) // 92)]:
        bases.append((1, 0, 1, 0, 47, p))
    bases = bases[:200]
    bases.append((2**53 + 1, 10**17 + 1, 1, 0, 2**64 - 1, "wide"))
    from mysensors.const_22 import MessageType

    bases.append((1, 0, MessageType.set, 0, 2, "enum"))
    v3, s3, m3 = e5.pmap(check_copy, [(b, r) for b in bases for r in range(3)])
    report.add_all(v1 + v2 + v3)
    stats = s1 + s2 + s3
    cov = report.coverage
    cov["evaluations"] = stats["encode_cases"] + stats["decode_cases"] + stats["copy_cases"]
    cov["distinct_nontrivial"] = len(set(enc_cases and [repr(c) for c in enc_cases])) + stats["decode_accepted"] + stats["copy_cases"]
    cov["rule"] = (
        "encode side: header values {-1,0,1,255,256,2^31,2^53+1,2^64-1,True,IntEnum members} pairwise in all five positions plus the full "
        f"product over {{-1,0,255,256}}, payloads = every string over a 13-character alphabet up to length {maxlen} that the wire "
        "can carry; decode side: every int()-style spelling over 8 characters up to length 3 in each position x line endings, plus 8 wide-integer spellings (2^53+1 .. 2^64-1, signs, underscores, leading zeros) in each position, "
        "payload strings incl. excluded characters; copy(): all 64 field subsets x 3 replacement values x base messages; "
        "non-trivial = distinct encode cases + accepted decode lines + copy cases"
    )
    cov["exhaustive"] = True
    cov["counts"] = dict(stats)
    cov["payloads_enumerated"] = len(payloads)
    cov["samples"] = (m1 + m2 + m3)[:9]
    report.assumptions = ["alphabets and lengths as listed; full Unicode represented by boundary members (non-ASCII, non-BMP, Unicode digit, three kinds of blank)", "independent decoder in mc/ref_codec.py resolves integer spellings the way Python's int() does"]
    return report.finish()


def replay(data):
    case = data["replay"]["case"]
    print(f"C02 case {short(case, 300)}: re-run './check C02' (input cases are enumerated deterministically)")
    return run("quick")
