"""C19 - behaviour depends only on the lines received (differential over segmentations, schedules, flavours)."""
import collections
import itertools
import logging

from .. import e5
from ..common import Report, Violation, short
from ..ref_codec import split_lines
from ..world import World, cleanup_process_scratch

PROP = "C19"
VERSION = "2.2"

FRAMES = {
    "PA": b"1;255;0;0;17;2.2\n",
    "CA0": b"1;0;0;0;36;d\n",
    "SAe": "1;0;1;0;47;é\n".encode("utf-8"),
    "SU": b"9;0;1;0;2;1\n",
    "CFG": b"1;255;3;0;6;0\n",
    "TIMU": b"7;255;3;0;1;\n",
    "GARB": b"garbage;;\n",
    "BADUTF": b"1;0;1;0;47;\xff\xfe\xc3\n",
    "CRLF": b"1;255;3;0;11;sk\r\n",
    "PSA": b"1;255;3;0;32;500\n",
    "RAT": b"1;0;2;0;47;\n",
    # lines longer than one 120-byte TCP read: a long sketch name, and line noise glued to a frame
    "LONGSK": b"1;255;3;0;11;" + b"long sketch name " * 9 + b"\n",
    "NOISEPA": b"\x00\xf8" * 65 + b"8;255;0;0;17;2.2\n",
}
LONG = ("LONGSK", "NOISEPA")
TAILS = [b"", b"1;255;3;0;6", b"\xc3"]


def run_stream(flavour, chunks, drain_each):
    """Feed chunks to a fresh real gateway; return (final state key, emissions, exception)."""
    world = World({"version": VERSION, "flavour": flavour, "cb": None})
    sent = []
    exc = None
    try:
        for chunk in chunks:
            obs = world.apply(("bytes", chunk, drain_each or flavour == "async"))
            sent.extend(obs.lines())
            if obs.exc is not None:
                exc = obs.exc
                break
        if exc is None and flavour == "sync" and not drain_each:
            obs = world.apply(("drain",))
            sent.extend(obs.lines())
            exc = obs.exc
        state = (world.tree(transient=True), bytes(world.gw.tasks.transport.protocol.buffer))
    finally:
        world.close()
    return state, sent, exc


class _Sock:
    """Scripted fake socket for the real TCPTransport.run loop: recv(n) hands out the chunks, at most n bytes each."""

    def __init__(self, chunks):
        self.chunks = [c for c in chunks if c]
        self.sent = []

    def setblocking(self, flag):
        pass

    def recv(self, size):
        chunk = self.chunks[0]
        if len(chunk) > size:
            self.chunks[0] = chunk[size:]
            return chunk[:size]
        self.chunks.pop(0)
        return chunk

    def sendall(self, data):
        self.sent.append(bytes(data))

    def close(self):
        pass


def run_stream_tcp(chunks, drain_each):
    """The threaded TCP reader: the real TCPTransport.run loop pulls the chunks from a fake socket with
    recv(120) and hands them to the protocol; the pump drains after every read or only at the end."""
    import types

    import mysensors.gateway_tcp as gt

    world = World({"version": VERSION, "flavour": "sync", "cb": None})
    sent = []
    exc = None
    saved = (gt.select, gt.time)
    try:
        sock = _Sock(chunks)
        proto = world.gw.tasks.transport.protocol
        holder = {}

        def check_conn():
            if drain_each:
                obs = world.apply(("drain",))
                sent.extend(obs.lines())
            if not sock.chunks:
                holder["t"].alive = False

        gt.select = types.SimpleNamespace(select=lambda r, w, x, timeout=None: ([sock] if sock.chunks else [], [sock], []))
        gt.time = types.SimpleNamespace(sleep=lambda s: None, time=lambda: 0.0)
        transport = gt.TCPTransport(sock, lambda: proto, check_conn)
        holder["t"] = transport
        try:
            transport.run()
        except Exception as err:  # pylint: disable=broad-except
            from ..world import exc_info

            exc = exc_info(err)
        obs = world.apply(("drain",))
        sent.extend(obs.lines())
        exc = exc or obs.exc
        state = (world.tree(transient=True), bytes(proto.buffer))
    finally:
        gt.select, gt.time = saved
        world.close()
    return state, sent, exc


def reference(stream):
    """Whole-line reference: independent splitter, each line handed to logic() of a fresh gateway,
    replies then follow-up jobs collected per line. Also predicts the 'nested jobs deferred' order."""
    lines, rest = split_lines(stream)
    world = World({"version": VERSION, "flavour": "sync", "cb": None})
    per_line = []
    try:
        gw = world.gw
        for line in lines:
            reply = gw.logic(line)
            nested = []
            while gw.tasks.queue:
                func, args = gw.tasks.queue.popleft()
                out = func(*args)
                if out:
                    nested.append(out)
            per_line.append((reply, nested))
        state = (world.tree(transient=True), rest)
    finally:
        world.close()
    ref_order = []
    for reply, nested in per_line:
        if reply:
            ref_order.append(reply)
        ref_order.extend(nested)
    return state, ref_order, per_line, lines


def deferred_order(per_line, batches):
    """Emission order if follow-up jobs of a line run only after the lines queued in the same batch."""
    out = []
    i = 0
    for n in batches:
        batch = per_line[i : i + n]
        i += n
        out.extend(r for r, _ in batch if r)
        for _, nested in batch:
            out.extend(nested)
    return out


def lines_per_chunk(chunks):
    counts = []
    for ch in chunks:
        counts.append(ch.count(b"\n"))
    return counts


def segmentations(stream, tier, two_cuts):
    n = len(stream)
    yield "whole", [stream]
    if tier == "burst":
        # a long burst: only coarse segmentations (whole, halves, 120-byte reads, per line)
        yield "halves", [stream[: n // 2], stream[n // 2 :]]
        yield "120", [stream[i : i + 120] for i in range(0, n, 120)]
        yield "per-line", [line + b"\n" for line in stream.split(b"\n") if line]
        return
    for i in range(1, n):
        yield f"cut{i}", [stream[:i], stream[i:]]
    if two_cuts:
        for i, j in itertools.combinations(range(1, n), 2):
            yield f"cut{i},{j}", [stream[:i], stream[i:j], stream[j:]]
    yield "bytewise", [stream[i : i + 1] for i in range(n)]
    if n > 120:
        yield "120", [stream[i : i + 120] for i in range(0, n, 120)]


def check_streams(chunk):
    logging.disable(logging.CRITICAL)
    viols, stats, samples = [], collections.Counter(), []
    hangs = 0
    for names, tail, tier, two_cuts in chunk:
        if hangs >= 5:
            stats["streams_skipped_after_pump_hangs"] += 1
            continue  # a poll loop that never goes idle: every further run would only wait for the guard again
        stream = b"".join(FRAMES[n] for n in names) + tail
        ref_state, ref_order, per_line, lines = reference(stream)
        stats["streams"] += 1
        for seg_name, chunks in segmentations(stream, tier, two_cuts):
            if hangs >= 5:
                break
            for flavour, drain_each in (("async", True), ("sync", True), ("sync", False), ("tcp", True), ("tcp", False)):
                if hangs >= 5:
                    break
                stats["runs"] += 1
                if flavour == "tcp":
                    state, sent, exc = run_stream_tcp(chunks, drain_each)
                else:
                    state, sent, exc = run_stream(flavour, chunks, drain_each)
                sched = "inline" if flavour == "async" else ("drain-each-chunk" if drain_each else "drain-at-end")
                rep = {"kind": "stream", "check": PROP, "names": list(names), "tail": tail, "chunks": chunks, "flavour": flavour, "drain_each": drain_each}
                where = f"{flavour}|{sched}"
                if exc is not None:
                    viols.append(Violation(PROP, f"exception|{where}|{exc['type']}@{exc['site']}", f"stream {names}+{tail!r} as {seg_name}: {exc['type']}: {exc['text']}", rep))
                    if exc["type"] == "PumpHang":
                        hangs += 1
                    continue
                if state != ref_state:
                    kind = "buffer" if state[0] == ref_state[0] else "state"
                    cutcls = "cut-in-multibyte" if any(ch and (ch[-1] & 0xC0) == 0xC0 for ch in chunks[:-1]) else ("cut-in-crlf" if any(ch.endswith(b"\r") for ch in chunks[:-1]) else "other")
                    viols.append(Violation(PROP, f"{kind}-differs|{where}|{cutcls}", f"stream {names}+{tail!r} as {seg_name} ({sched}): final state differs from the whole-line reference", rep))
                    continue
                if sent != ref_order:
                    if sorted(sent) == sorted(ref_order):
                        stats["order_differs"] += 1
                        reads = [c[i : i + 120] for c in chunks for i in range(0, len(c), 120)] if flavour == "tcp" else chunks
                        batches = lines_per_chunk(reads) if drain_each else [len(lines)]
                        if flavour in ("sync", "tcp") and sent == deferred_order(per_line, batches):
                            viols.append(Violation(PROP, "emission-order|threaded|follow-up-jobs-run-after-queued-lines", f"stream {names} as {seg_name} ({sched}): emitted {sent}, whole-line reference {ref_order}", rep))
                        else:
                            viols.append(Violation(PROP, f"emission-order|{where}|unexplained", f"stream {names} as {seg_name} ({sched}): emitted {sent}, reference {ref_order}", rep))
                    else:
                        viols.append(Violation(PROP, f"emissions-differ|{where}", f"stream {names}+{tail!r} as {seg_name} ({sched}): emitted {sent}, reference {ref_order}", rep))
                else:
                    stats["runs_agreeing"] += 1
        if not samples:
            samples.append([list(names), tail.hex(), len(stream)])
    cleanup_process_scratch()
    return viols, stats, samples


def run(tier):
    logging.disable(logging.CRITICAL)
    report = Report(PROP, "model_checking", tier)
    names = list(FRAMES)
    cases = []
    for a in names:
        for tail in TAILS:
            cases.append(((a,), tail, tier, a not in LONG or tier == "thorough"))
    cases.append((("PA", "LONGSK", "CFG"), b"", tier, False))
    # a sleeping node with two withheld replies, released by the next wake-up (order of the burst)
    cases.append((("PA", "CA0", "SAe", "PSA", "RAT", "CFG", "TIMU", "PSA"), b"", "burst", False))
    cases.append((("PA", "CA0", "SAe", "PSA", "RAT", "CFG", "PSA", "CFG"), b"", tier, False))
    # two wake-up announcements of the same node in one burst, with replies withheld before them
    cases.append((("PA", "CA0", "SAe", "PSA", "RAT", "CFG", "PSA", "PSA", "CFG"), b"", "burst", False))
    cases.append((("NOISEPA", "LONGSK"), b"", tier, False))
    names = [n for n in names if n not in LONG]
    for a, b in itertools.product(names, repeat=2):
        cases.append(((a, b), b"", tier, tier == "thorough" or (a, b) in (("SU", "CFG"), ("SAe", "CRLF"), ("PA", "CA0"))))
    triples = list(itertools.product(names, repeat=3))
    if tier == "quick":
        triples = [t for t in triples if t[0] in ("PA", "SU") and t[1] in ("CA0", "SU", "PSA", "CFG") and t[2] in ("SAe", "CFG", "RAT", "PSA", "TIMU")]
    for t in triples:
        cases.append((t, b"", tier, False))
    long_stream = tuple(["PA", "CA0"] + ["SAe", "CFG", "SU", "CRLF"] * 6)
    cases.append((long_stream, b"1;2", tier, False))
    # many lines pending at once (one chunk carries them all)
    cases.append((tuple(["PA", "CA0"] + ["SAe", "TIMU", "CFG"] * 20), b"", "burst", False))
    viols, stats, samples = e5.pmap(check_streams, cases, parts=128)
    report.add_all(viols)
    cov = report.coverage
    cov["states"] = stats["streams"]
    cov["transitions"] = stats["runs"]
    cov["traces_validated_against_impl"] = stats["runs"]
    cov["evaluations"] = stats["runs"]
    cov["distinct_nontrivial"] = stats["streams"]
    cov["rule"] = (
        "byte streams = concatenations of up to 3 frames (valid frames incl. a multi-byte payload, a frame from an unknown "
        "node that triggers a presentation request, frames with replies, garbage, invalid UTF-8, CRLF ending) plus "
        "unterminated tails; for each stream: unsegmented, every single cut position, every pair of cut positions (all "
        "streams in thorough, singles and selected pairs in quick), byte-by-byte, 120-byte chunks; each segmentation is run "
        "on the asyncio protocol (inline jobs) and on the threaded protocol with the pump draining after every chunk and "
        "only at the end; every run is compared (final tree incl. transient state, framing buffer, ordered emissions) with "
        "the whole-line reference run; states = streams, transitions = runs executed on the real code"
    )
    cov["exhaustive"] = True
    cov["counts"] = dict(stats)
    cov["samples"] = samples[:8]
    report.assumptions = ["reference run = independent line splitter + Gateway.logic per complete line, follow-up jobs drained after each line", "gateway version 2.2; real protocol classes fed through data_received with a fake connection"]
    code = report.finish()
    cleanup_process_scratch()
    return code


def replay(data):
    rep = data["replay"]
    logging.disable(logging.CRITICAL)
    names, tail = tuple(rep["names"]), rep["tail"]
    stream = b"".join(FRAMES[n] for n in names) + tail
    ref_state, ref_order, per_line, lines = reference(stream)
    if rep["flavour"] == "tcp":
        state, sent, exc = run_stream_tcp(list(rep["chunks"]), rep["drain_each"])
    else:
        state, sent, exc = run_stream(rep["flavour"], list(rep["chunks"]), rep["drain_each"])
    cleanup_process_scratch()
    print(f"reference emissions {ref_order}\nobserved  emissions {sent}\nstate equal: {state == ref_state}; exception: {exc}")
    differs = exc is not None or state != ref_state or sent != ref_order
    if differs:
        print(f"VIOLATION property={PROP} replay=<replayed>")
        return 1
    print("did not reproduce on the current tree")
    return 0
