"""C15 part (b): a scheduled save against a concurrent message (E2, preemption-bounded schedules)."""
import collections
import multiprocessing
import os
import shutil
import time

from .. import sched as S
from ..canon import project_tree
from ..common import NPROC, HarnessError, Violation, scratch_root, short
from ..fsfault import FaultFS

PROP = "C15"
TRACE = ("mysensors/persistence.py", "mysensors/sensor.py")
BASE = ["1;255;0;0;17;2.2", "1;0;0;0;3;lamp", "1;0;1;0;2;0", "2;255;0;0;17;2.2", "2;0;0;0;6;t", "2;0;1;0;0;20"]
DIRTY = ["1;255;3;0;0;44"]
CONCURRENT = {
    "new-node": "3;255;0;0;17;2.2",
    "new-child": "1;1;0;0;6;second",
    "new-value-type": "1;0;1;0;17;12",
    "changed-value": "1;0;1;0;2;1",
    # two changes from two threads (reader thread and controller thread, or two reads): each can hit one pass of a save
    "two-new-nodes": ["3;255;0;0;17;2.2", "4;255;0;0;17;2.2"],
}
BOUND_OVERRIDE = {"two-new-nodes": 2}


def _dir():
    d = os.path.join(scratch_root(), f"verif-pymys-{os.getpid()}", "c15b")
    shutil.rmtree(d, ignore_errors=True)
    os.makedirs(d)
    return d


def load_tree(directory, fmt):
    from .c12 import make_gateway

    copy = directory + "-copy"
    shutil.rmtree(copy, ignore_errors=True)
    shutil.copytree(directory, copy)
    try:
        gw = make_gateway(os.path.join(copy, f"p.{fmt}"), [])
        gw.tasks.persistence.safe_load_sensors()
        return project_tree(gw.sensors), None
    except Exception as exc:  # pylint: disable=broad-except
        return None, exc
    finally:
        shutil.rmtree(copy, ignore_errors=True)


def run_one(fmt, what, prefix):
    """One schedule of save || logic(line). Returns (scheduler, observations dict)."""
    from mysensors.gateway_serial import SerialGateway

    S.install_library_shims()
    del S.TIMERS[:]
    d = _dir()
    path = os.path.join(d, f"p.{fmt}")
    gw = SerialGateway("/dev/verif", persistence=True, persistence_file=path, protocol_version="2.2")
    for line in BASE:
        gw.logic(line)
    gw.tasks.persistence.save_sensors()  # the previously saved state
    saved = project_tree(gw.sensors)
    for line in DIRTY:
        gw.logic(line)
    before = project_tree(gw.sensors)
    obs = {"saved": saved, "before": before}
    # the two-producer combination is explored with 2 preemptions: points at persistence.py lines and file operations only
    sched = S.Scheduler(prefix, trace_files=TRACE[:1] if what in BOUND_OVERRIDE else TRACE, horizon=6000)
    fs = FaultFS("record")
    fs.on_point = lambda op: sched.point(("file", op[0]))

    def body():
        def saver():
            fs.install()
            try:
                gw.tasks.persistence.schedule_save_sensors()
                obs["save_raised"] = None
            except Exception as exc:  # pylint: disable=broad-except
                obs["save_raised"] = exc
            finally:
                fs.uninstall()

        def producer(line):
            def run():
                try:
                    gw.logic(line)
                    obs.setdefault("logic_raised", None)
                except Exception as exc:  # pylint: disable=broad-except
                    obs["logic_raised"] = exc
            return run

        lines = CONCURRENT[what] if isinstance(CONCURRENT[what], list) else [CONCURRENT[what]]
        t1 = sched.spawn(saver, "saver")
        others = [sched.spawn(producer(line), f"producer{i}") for i, line in enumerate(lines)]
        sched.block(lambda: not t1.alive and all(not t.alive for t in others), ("join-all",))

    sched.run(body)
    obs["after"] = project_tree(gw.sensors)
    obs["need_save"] = gw.tasks.persistence.need_save
    obs["timers"] = [t for t in S.TIMERS if t.started and not t.cancelled]
    obs["gw"] = gw
    obs["dir"] = d
    obs["ops"] = len(fs.ops)
    return sched, obs


def judge(fmt, what, sched, obs):
    out = []
    info = collections.Counter()
    if sched.problem in ("deadlock", "horizon"):
        out.append((sched.problem, "", f"execution ended in {sched.problem}"))
        return out, info
    if obs.get("logic_raised") is not None:
        e = obs["logic_raised"]
        out.append(("message-processing-raises", type(e).__name__, f"logic() raised {type(e).__name__}: {e} while a save was running"))
    # whether the save itself failed: schedule_save swallows and logs; detect through the dirty flag and the file
    loaded, err = load_tree(obs["dir"], fmt)
    if err is not None:
        out.append(("file-not-loadable", type(err).__name__, f"after the concurrent save the file does not load: {type(err).__name__}: {short(str(err))}"))
        return out, info
    # whatever happened, a main file that exists must be a complete document (the loader's fallback to the backup is for
    # crashes, not for a save that ran to its end with a half-written file)
    main = os.path.join(obs["dir"], f"p.{fmt}")
    if os.path.exists(main):
        try:
            with open(main, "rb") as fh:
                if fmt == "json":
                    import json

                    json.loads(fh.read().decode("utf-8"))
                else:
                    import pickle

                    pickle.load(fh)
        except Exception as exc:  # pylint: disable=broad-except
            out.append(("main-file-corrupt", type(exc).__name__, f"after the concurrent save the main file is not a complete document ({type(exc).__name__}: {short(str(exc))}); need_save={obs['need_save']}"))
            return out, info
    failed = obs.get("save_raised") is not None or (loaded == obs["saved"] and obs["need_save"])
    if obs.get("save_raised") is not None:
        info["save_exception_escaped_schedule"] += 1
    if failed:
        info["saves_failed"] += 1
        if loaded != obs["saved"]:
            out.append(("previous-file-lost", "", "the save failed but the previous file no longer loads to the previously saved state"))
        if not obs["need_save"]:
            out.append(("dirty-flag-cleared", "", "the save failed but the state is no longer marked unsaved"))
        if not obs["timers"]:
            out.append(("schedule-stopped", "", "the save failed and no further periodic save is armed"))
        else:
            # the next attempt (no concurrency now) must persist the then-current state
            try:
                obs["timers"][-1].function()
            except Exception as exc:  # pylint: disable=broad-except
                out.append(("next-save-raises", type(exc).__name__, f"the next scheduled save raised {type(exc).__name__}: {exc}"))
                return out, info
            again, err2 = load_tree(obs["dir"], fmt)
            if err2 is not None or again != obs["after"]:
                out.append(("next-save-not-current", "", "the next scheduled save did not persist the then-current state"))
    else:
        info["saves_completed"] += 1
        if loaded == obs["after"]:
            info["snapshot_after_change"] += 1
        elif loaded == obs["before"]:
            info["snapshot_before_change"] += 1
            if not obs["need_save"]:
                info["stale_snapshot_with_dirty_flag_cleared"] += 1
        else:
            info["snapshot_mixed"] += 1
        if not obs["timers"]:
            out.append(("schedule-stopped", "after-success", "no further periodic save is armed after a completed save"))
    return out, info


def _explore_part(args):
    fmt, what, bound, roots, deadline, expand_limit = args
    res = S.Result()
    found = {}
    info = collections.Counter()
    outcomes = collections.Counter()

    def make(prefix):
        sched, obs = run_one(fmt, what, prefix)
        sched.obs = obs
        return sched

    def check(sched):
        viols, inf = judge(fmt, what, sched, sched.obs)
        info.update(inf)
        outcomes[tuple(sorted(inf))] += 1
        for clause, detail, msg in viols:
            sig = f"concurrent-save|{fmt}|{what}|{clause}" + (f"|{detail}" if detail else "")
            npre = S.preemptions(sched.points, len(sched.points))
            if sig not in found or npre < found[sig][2]:
                found[sig] = (msg, list(sched.choices), npre)
        shutil.rmtree(sched.obs["dir"], ignore_errors=True)

    complete, leftover = S.explore(make, check, bound, res, deadline=deadline, roots=roots, expand_limit=expand_limit)
    return fmt, what, complete, leftover, res.executions, res.points, len(res.distinct_points), found, dict(info), len(outcomes)


def run_part(report, tier):
    bound = 1 if tier == "quick" else 2
    deadline = time.time() + (300 if tier == "quick" else 1500)
    combos = [(fmt, what) for fmt in ("json", "pickle") for what in CONCURRENT if not (tier == "quick" and what in BOUND_OVERRIDE and fmt != "json")]
    ctx = multiprocessing.get_context("fork")
    agg = {c: {"executions": 0, "points": 0, "distinct": 0, "info": collections.Counter(), "complete": True, "outcomes": 0} for c in combos}
    with ctx.Pool(NPROC) as pool:
        seeds = [(fmt, what, max(bound, BOUND_OVERRIDE.get(what, 0)), None, deadline, 25) for fmt, what in combos]
        parts = []
        for fmt, what, complete, leftover, execs, points, distinct, found, info, nout in pool.imap(_explore_part, seeds):
            a = agg[(fmt, what)]
            a["executions"] += execs
            a["points"] += points
            a["distinct"] = max(a["distinct"], distinct)
            a["info"].update(info)
            a["outcomes"] = max(a["outcomes"], nout)
            a["complete"] = a["complete"] and complete
            _add(report, fmt, what, found)
            chunks = [leftover[i::8] for i in range(8)]
            parts += [(fmt, what, max(bound, BOUND_OVERRIDE.get(what, 0)), ch, deadline, None) for ch in chunks if ch]
        for fmt, what, complete, leftover, execs, points, distinct, found, info, nout in pool.imap_unordered(_explore_part, parts):
            a = agg[(fmt, what)]
            a["executions"] += execs
            a["points"] += points
            a["distinct"] = max(a["distinct"], distinct)
            a["info"].update(info)
            a["outcomes"] = max(a["outcomes"], nout)
            a["complete"] = a["complete"] and complete
            _add(report, fmt, what, found)
    # replay every failing schedule twice
    for v in list(report.violations.values()):
        rep = v.replay or {}
        if rep.get("kind") != "schedule":
            continue
        s1, o1 = run_one(rep["fmt"], rep["what"], rep["choices"])
        j1, _ = judge(rep["fmt"], rep["what"], s1, o1)
        s2, o2 = run_one(rep["fmt"], rep["what"], rep["choices"])
        j2, _ = judge(rep["fmt"], rep["what"], s2, o2)
        if [x[:2] for x in j1] != [x[:2] for x in j2] or s1.problem == "divergence":
            raise HarnessError(f"schedule for {v.signature} is not reproducible")
    total = collections.Counter()
    for a in agg.values():
        total.update(a["info"])
    return {
        "preemption_bound": bound,
        "schedules": sum(a["executions"] for a in agg.values()),
        "scheduling_decisions": sum(a["points"] for a in agg.values()),
        "schedules_with_concurrent_change": total["saves_failed"] + total["snapshot_after_change"] + total["snapshot_mixed"],
        "complete": all(a["complete"] for a in agg.values()),
        "informational": dict(total),
        "per_combo": {f"{f}/{w}": {"schedules": a["executions"], "complete": a["complete"], "distinct_points": a["distinct"], **{k: v for k, v in a["info"].items()}} for (f, w), a in agg.items()},
        "rule": "saver thread runs the real scheduled save (fake Timer) while a producer thread runs Gateway.logic(line) that adds a node / a child / a value type / changes a value (one combination with two producer threads adding a node each, explored with 2 preemptions); scheduling points: every line of persistence.py and sensor.py, every intercepted file operation; every schedule with at most the stated number of preemptions",
    }


def _add(report, fmt, what, found):
    for sig, (msg, choices, npre) in found.items():
        report.add(Violation(PROP, sig, f"{msg} (schedule with {npre} preemption(s))", {"kind": "schedule", "check": PROP, "fmt": fmt, "what": what, "choices": choices}))


def replay(data):
    rep = data["replay"]
    sched, obs = run_one(rep["fmt"], rep["what"], list(rep["choices"]))
    viols, info = judge(rep["fmt"], rep["what"], sched, obs)
    shutil.rmtree(obs["dir"], ignore_errors=True)
    sigs = sorted(f"concurrent-save|{rep['fmt']}|{rep['what']}|{c}" + (f"|{d}" if d else "") for c, d, _ in viols)
    print(f"schedule of {len(sched.points)} points replayed; violations {sigs}; info {dict(info)}")
    if data["signature"] in sigs:
        print(f"VIOLATION property={PROP} replay=<replayed>")
        return 1
    print("did not reproduce on the current tree")
    return 0
