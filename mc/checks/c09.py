"""C09 - OTA serves exactly the firmware it advertised (E5 + E1, bounded-exhaustive / model checking)."""
import collections
import logging
import os
import random
import shutil

from .. import e5
from ..common import Report, Violation, seed, short
from ..ref_codec import crc16_modbus, hex_to_words, intel_hex, words_to_hex

PROP = "C09"


def contents(length, family, rng_seed):
    if family == "zeros":
        return bytes(length)
    if family == "ff":
        return b"\xff" * length
    if family == "mod251":
        return bytes(i % 251 for i in range(length))
    rng = random.Random(rng_seed * 1000003 + length)
    return bytes(rng.randrange(256) for _ in range(length))


def make_gateway():
    from mysensors.gateway_serial import SerialGateway

    gw = SerialGateway("/dev/verif", protocol_version="2.2")
    for nid in (1, 2, 3):
        gw.logic(f"{nid};255;0;0;17;2.2")
    return gw


def fetch(gw, nodes, ftype, fver, image, order_name, viols, stats, rep, label):
    """Config request + all blocks by the given nodes in the given order; judge per C09."""
    cfg_req = words_to_hex(ftype ^ 1 & 0xFFFF, 0, 0, 0, 0x0102)
    blocks = None
    for nid in nodes:
        reply = gw.logic(f"{nid};255;4;0;0;{cfg_req}")
        stats["config_requests"] += 1
        if reply is None:
            viols.append(Violation(PROP, f"no-config-response|{label}", f"node {nid}: no config response for image of {len(image)} bytes", rep))
            return
        parts = reply.rstrip("\n").split(";")
        if parts[:5] != [str(nid), "255", "4", "0", "1"]:
            viols.append(Violation(PROP, f"config-header|{label}", f"config response {reply!r}", rep))
            return
        words = hex_to_words(parts[5], 4)
        if words is None:
            viols.append(Violation(PROP, f"config-payload|{label}", f"config response payload {parts[5]!r}", rep))
            return
        t, v, blocks, crc = words
        if (t, v) != (ftype, fver):
            viols.append(Violation(PROP, f"config-echo|{label}", f"config response advertises {(t, v)}, scheduled {(ftype, fver)}", rep))
            return
    total = 16 * blocks
    if total % 128 != 0 or total < len(image) or total - len(image) > 128:
        viols.append(Violation(PROP, f"block-count|{label}", f"{blocks} blocks advertised for an image of {len(image)} bytes", rep))
        return
    if order_name == "ascending":
        order = list(range(blocks))
    elif order_name == "descending":
        order = list(range(blocks - 1, -1, -1))
    elif order_name == "evens-odds":
        order = list(range(0, blocks, 2)) + list(range(1, blocks, 2))
    else:  # each block twice
        order = [i for i in range(blocks) for _ in (0, 1)]
    got = {nid: {} for nid in nodes}
    for idx in order:
        for nid in nodes:
            reply = gw.logic(f"{nid};255;4;0;2;{words_to_hex(ftype, fver, idx)}")
            stats["block_requests"] += 1
            if reply is None:
                viols.append(Violation(PROP, f"no-block-response|{label}", f"node {nid}: block {idx} of {blocks} not served", rep))
                return
            parts = reply.rstrip("\n").split(";")
            head = words_to_hex(ftype, fver, idx)
            if parts[:5] != [str(nid), "255", "4", "0", "3"] or not parts[5].startswith(head):
                viols.append(Violation(PROP, f"block-echo|{label}", f"block response {reply!r} does not echo type/version/index {head}", rep))
                return
            try:
                data = bytes.fromhex(parts[5][len(head):])
            except ValueError:
                data = None
            if data is None or len(data) != 16:
                viols.append(Violation(PROP, f"block-size|{label}", f"block {idx}: {parts[5][len(head):]!r}", rep))
                return
            if idx in got[nid] and got[nid][idx] != data:
                viols.append(Violation(PROP, f"block-not-repeatable|{label}", f"block {idx} served differently the second time", rep))
                return
            got[nid][idx] = data
    for nid in nodes:
        whole = b"".join(got[nid][i] for i in range(blocks))
        if whole[: len(image)] != image:
            first = next(i for i in range(len(image)) if whole[i] != image[i])
            viols.append(Violation(PROP, f"reassembly-differs|{label}", f"image of {len(image)} bytes: served data differs from the image at offset {first}", rep))
            return
        if whole[len(image):] != b"\xff" * (total - len(image)):
            viols.append(Violation(PROP, f"padding-not-ff|{label}", f"image of {len(image)} bytes: padding is {short(whole[len(image):].hex(), 40)}", rep))
            return
        if crc16_modbus(whole) != crc:
            viols.append(Violation(PROP, f"crc|{label}", f"image of {len(image)} bytes: advertised CRC {crc:#06x}, CRC-16/MODBUS of the served data {crc16_modbus(whole):#06x}", rep))
            return
    stats["images_verified"] += 1


def _data_record_inside(line, a, b):
    """True for a data record of an Intel-HEX text whose bytes all lie inside [a, b)."""
    if not line.startswith(":") or line[7:9] != "00":
        return False
    n = int(line[1:3], 16)
    addr = int(line[3:7], 16)
    return n > 0 and a <= addr and addr + n <= b


def check_images(chunk):
    from ..world import install_shims

    install_shims()
    logging.disable(logging.CRITICAL)
    viols, stats, samples = [], collections.Counter(), []
    from ..common import scratch_root

    d = os.path.join(scratch_root(), f"verif-pymys-{os.getpid()}", "c09")
    os.makedirs(d, exist_ok=True)
    try:
        for case in chunk:
            length, family, hexopts, ftype, fver, nnodes, order_name, sd = case
            image = contents(length, family, sd)
            rec, ela, shuffled = hexopts
            order = None
            if shuffled:
                rng = random.Random(sd + length)

                def order(recs, rng=rng):
                    recs = list(recs)
                    rng.shuffle(recs)
                    return recs

            path = os.path.join(d, "fw.hex")
            gap = length % 3 == 0 and 40 <= length
            if gap:
                # a HEX file with an address gap: the unprogrammed bytes read as erased flash (0xFF)
                a, b = length // 3, length // 3 + 16
                image = image[:a] + b"\xff" * (b - a) + image[b:]
                text = intel_hex(image, rec, ela, None)
                keep = [ln for ln in text.splitlines() if not _data_record_inside(ln, a, b)]
                text = "\n".join(keep) + "\n"
                if not any(_data_record_inside(ln, a, b) for ln in intel_hex(image, rec, ela, None).splitlines()):
                    gap = False
            with open(path, "w", encoding="utf-8") as fh:
                fh.write(text if gap else intel_hex(image, rec, ela, order))
            if gap:
                stats["hex_files_with_gap"] += 1
            rep = {"kind": "input", "check": PROP, "case": list(case)}
            label = f"{family}"
            gw = make_gateway()
            nodes = [1, 2, 3][:nnodes]
            stats["images"] += 1
            try:
                from mysensors.ota import load_fw

                loaded = load_fw(path)
                if loaded != image:
                    viols.append(Violation(PROP, f"hex-load-differs|rec{rec}{'|ela' if ela else ''}{'|shuffled' if shuffled else ''}", f"Intel-HEX file encoding {length} bytes loads to {len(loaded) if loaded is not None else None} bytes / different content", rep))
                    continue
                gw.update_fw(nodes, ftype, fver, fw_path=path)
                fetch(gw, nodes, ftype, fver, image, order_name, viols, stats, rep, label)
                if length % 5 == 0 and length <= 2304:
                    # a new image pushed under the same (type, version) on the same gateway replaces the old one
                    image2 = bytes((b + 1 + i) & 0xFF for i, b in enumerate(image)) + b"\x01\x02\x03"
                    path2 = os.path.join(d, "fw2.hex")
                    with open(path2, "w", encoding="utf-8") as fh:
                        fh.write(intel_hex(image2, rec, ela, None))
                    gw.update_fw(nodes, ftype, fver, fw_path=path2)
                    stats["replaced_images"] += 1
                    fetch(gw, nodes, ftype, fver, image2, "ascending", viols, stats, rep, label + "|replaced-image")
            except Exception as exc:  # pylint: disable=broad-except
                viols.append(Violation(PROP, f"raises|{type(exc).__name__}", f"image of {length} bytes ({family}): {type(exc).__name__}: {short(str(exc))}", rep))
            if not samples:
                samples.append(list(case))
    finally:
        shutil.rmtree(d, ignore_errors=True)
    return viols, stats, samples


def check_crc(chunk):
    """CRC agreement on zero and on every single-bit image of a padded length (a basis: CRC is affine over GF(2))."""
    from mysensors.ota import compute_crc

    viols, stats, samples = [], collections.Counter(), []
    for length, bit in chunk:
        data = bytearray(length)
        if bit is not None:
            data[bit // 8] |= 1 << (bit % 8)
        stats["crc_basis_cases"] += 1
        if compute_crc(bytes(data)) != crc16_modbus(bytes(data)):
            viols.append(Violation(PROP, "crc-basis", f"CRC differs from CRC-16/MODBUS on the {'zero' if bit is None else f'bit-{bit}'} image of {length} bytes", {"kind": "input", "check": PROP, "case": ["crc", length, bit]}))
    return viols, stats, samples


def lengths(tier):
    out = set()
    top = 400 if tier == "quick" else 2304
    out.update(range(1, top + 1))
    kstep = 8 if tier == "quick" else 1
    for k in range(1, 257, kstep):
        out.update(x for x in (k * 128 - 1, k * 128, k * 128 + 1) if 1 <= x <= 32768)
    if tier == "thorough":
        for k in range(1, 257):
            out.update((k * 16 - 1, k * 16 + 1))
    out.update((32767, 32768, 32640, 32641))
    return sorted(out)


def run(tier):
    logging.disable(logging.CRITICAL)
    report = Report(PROP, "exploration", tier)
    sd = seed()
    families = ["zeros", "ff", "mod251", "prng"]
    hexvariants = [(16, False, False), (32, False, False), (16, True, False), (16, False, True), (32, True, True)]
    orders = ["ascending", "descending", "evens-odds", "twice"]
    cases = []
    i = 0
    for length in lengths(tier):
        for fam in families if (tier == "thorough" or length <= 400) else families[2:]:
            # rotate hex variants / node counts / orders deterministically so that each appears with every residue class
            i += 1
            combos = [(hexvariants[(i + j) % 5], 1 + (i + j) % 3, orders[(i + j) % 4]) for j in range(2 if tier == "quick" else 4)]
            for hv, nn, order in combos:
                if length > 4096 and nn > 1:
                    nn = 1
                cases.append((length, fam, hv, 1, 1, nn, order, sd))
    # firmware type/version grid on a short image
    for ft in (0, 1, 255, 256, 65535):
        for fv in (0, 1, 255, 256, 65535):
            cases.append((37, "mod251", (16, False, False), ft, fv, 2, "ascending", sd))
    cases.sort(key=lambda c: -c[0])
    v1, s1, m1 = e5.pmap(check_images, cases, parts=256)
    crc_cases = []
    for length in (128, 256):
        crc_cases.append((length, None))
        crc_cases += [(length, b) for b in range(length * 8)]
    v2, s2, m2 = e5.pmap(check_crc, crc_cases)
    report.add_all(v1 + v2)
    # E1 part: every request order prefix of length <= depth for one 8-block image, two nodes
    bfs_stats = ota_bfs(report, depth=4 if tier == "quick" else 5)
    part_c = run_part_c(report, tier)
    stats = s1 + s2
    cov = report.coverage
    cov["evaluations"] = stats["images"] + stats["crc_basis_cases"] + bfs_stats["transitions"]
    cov["distinct_nontrivial"] = len({(c[0], c[1]) for c in cases})
    cov["rule"] = (
        "image lengths: every length 1..400 (quick) / 1..2304 (thorough), every k*128-1,k*128,k*128+1 (every 8th k in quick) "
        "up to 32768, k*16+-1 up to 4096 (thorough); contents: zeros, 0xFF, i mod 251, PRNG(VERIF_SEED); each image written by "
        "the independent Intel-HEX writer (record sizes 16/32, with/without extended linear address record, shuffled records), "
        "loaded by the real update_fw and fetched through Gateway.logic by 1-3 nodes in ascending/descending/evens-odds/"
        "each-twice order; CRC compared on a GF(2) basis (zero + every single-bit image of 128 and 256 bytes); plus BFS "
        "over request sequences for one 8-block image; non-trivial = distinct (length, content family)"
    )
    cov["exhaustive"] = True
    cov["counts"] = dict(stats)
    cov["ota_bfs"] = bfs_stats
    cov["threaded_update_call"] = part_c
    cov["schedules"] = part_c["schedules"]
    cov["seed_effect"] = "VERIF_SEED seeds the PRNG content family and the shuffled record order only"
    cov["samples"] = m1[:8]
    report.assumptions = ["independent CRC-16/MODBUS (bitwise) and Intel-HEX writer in mc/ref_codec.py", "a CRC is affine over GF(2): agreement on zero and on a basis decides agreement for all contents of that length for any CRC-like implementation; the four content families guard against a non-affine one"]
    return report.finish()


def ota_bfs(report, depth):
    """Explicit-state BFS over {config request, block request i} x nodes {1,2} for one 8-block image."""
    from .. import explore
    from ..monitors import GatewayMonitor
    from ..alpha import rx

    class Spec(explore.Spec):
        prop = PROP

        def configs(self, tier):
            return [{"version": "2.2", "cb": None}]

        def alphabet(self, cfg):
            evs = []
            for nid in (1, 2):
                evs.append(rx(f"{nid};255;4;0;0;" + words_to_hex(1, 0, 8, 0, 0x0102)))
                for blk in range(8):
                    evs.append(rx(f"{nid};255;4;0;2;" + words_to_hex(1, 1, blk)))
            # a second registered firmware requested by a node scheduled for the first one: the response
            # must carry the data of the firmware whose type/version it echoes
            evs.append(rx("1;255;4;0;2;" + words_to_hex(1, 2, 0)))
            evs.append(rx("1;255;4;0;2;" + words_to_hex(1, 2, 9)))
            # a stray request naming a firmware that was never registered: the session must survive it
            evs.append(rx("1;255;4;0;2;" + words_to_hex(7, 7, 0)))
            # the update is issued again (same key) in the middle of a session
            evs.append(("fw", 1, 1, 1, "F1"))
            evs.append(("fw", 2, 1, 2, None))
            return evs

        def roots(self, cfg):
            return [
                (rx("1;255;0;0;17;2.2"), rx("2;255;0;0;17;2.2"), ("fw", 9, 1, 2, "F2"), ("fw", (1, 2), 1, 1, "F1")),
                # node 1 uses smart sleep (child presented, pre-sleep notification seen): it is served like node 2
                (rx("1;255;0;0;17;2.2"), rx("1;0;0;0;3;"), rx("1;255;3;0;32;500"), rx("2;255;0;0;17;2.2"), ("fw", 9, 1, 2, "F2"), ("fw", (1, 2), 1, 1, "F1")),
            ]

        def new_monitor(self, cfg):
            return GatewayMonitor(PROP, "2.2", {"ota", "exc"})

    sub = Report(PROP, "model_checking", "quick")
    explore.run(Spec(), sub, "quick", depth, 500000, 300)
    report.add_all(sub.violations.values())
    return {"states": sub.coverage["states"], "transitions": sub.coverage["transitions"], "completed_depth": depth, "witnesses": sub.coverage["witnesses"]}


# -- part (c): an update call on the application thread against the poll thread answering requests (E2) -----

C_SCENARIOS = {
    # name: (update call nids, lines queued for the pump before the threads start)
    "update-vs-config-request": ([1], ["1;255;4;0;0;" + words_to_hex(1, 0, 8, 0, 0x0102)]),
    "update-list-vs-config-requests": ([2, 1], ["1;255;4;0;0;" + words_to_hex(1, 0, 8, 0, 0x0102), "2;255;4;0;0;" + words_to_hex(1, 0, 8, 0, 0x0102)]),
    "update-vs-config-and-block": ([1], ["1;255;4;0;0;" + words_to_hex(1, 0, 8, 0, 0x0102), "1;255;4;0;2;" + words_to_hex(1, 1, 0)]),
}


def _c_run_one(name, prefix):
    from .. import sched as S
    from ..world import FW_IMAGES
    from .c16 import Conn

    from mysensors.gateway_serial import SerialGateway

    S.install_library_shims()
    nids, lines = C_SCENARIOS[name]
    gw = SerialGateway("/dev/verif", protocol_version="2.2")
    for line in ("1;255;0;0;17;2.2", "2;255;0;0;17;2.2", "3;255;0;0;17;2.2"):
        gw.logic(line)
    # (type 1, version 1) is already registered with image F1 because node 3 was updated earlier; nodes 1 and 2
    # are in no session. The application thread now issues a corrected build F2 under the same key.
    gw.tasks.ota.make_update([3], 1, 1, FW_IMAGES["F1"])
    gw.tasks.queue.clear()
    sched = S.Scheduler(prefix, trace_files=("mysensors/ota.py",), horizon=5000)
    log = sched.log
    gw.tasks.transport._connect = lambda tr: None
    gw.tasks.transport.protocol.connection_made(Conn(log, "c0"))
    S.PUMP_TASKS[0] = gw.tasks
    proto = gw.tasks.transport.protocol

    def body():
        def pump():
            try:
                gw.tasks._poll_queue()
            except Exception as exc:  # pylint: disable=broad-except
                log.append(("pump-raised", type(exc).__name__, str(exc)[:120], S._site(exc)))

        def controller():
            try:
                gw.tasks.ota.make_update(list(nids), 1, 1, FW_IMAGES["F2"])
            except Exception as exc:  # pylint: disable=broad-except
                log.append(("call-raised", type(exc).__name__, str(exc)[:120], S._site(exc)))

        for line in lines:
            proto.handle_line(line)
        t0 = sched.spawn(pump, "pump")
        t1 = sched.spawn(controller, "controller")
        sched.block(lambda: not t1.alive and (not gw.tasks.queue or not t0.alive), ("join",))
        gw.tasks._stop_event.set()
        sched.block(lambda: all(not t.alive for t in sched.threads[1:]), ("join-rest",))

    sched.run(body)
    # sequential epilogue (no scheduling): every node that was given an advert fetches all advertised blocks
    adverts = {}
    early_blocks = {}
    for e in log:
        if e[0] != "write":
            continue
        text = e[2].decode() if isinstance(e[2], bytes) else e[2]
        f = text.rstrip("\n").split(";")
        if f[2] == "4" and f[4] == "1":
            adverts[int(f[0])] = hex_to_words(f[5], 4)
        if f[2] == "4" and f[4] == "3":
            early_blocks.setdefault(int(f[0]), []).append(f[5])
    sched.c09 = []
    sched.gw = gw
    for nid, (ftype, fver, blocks, crc) in adverts.items():
        data = b""
        for blk in range(blocks):
            reply = gw.logic(f"{nid};255;4;0;2;" + words_to_hex(ftype, fver, blk))
            if reply is None:
                sched.c09.append((nid, f"block {blk} of {blocks} advertised blocks not served"))
                break
            payload = reply.rstrip("\n").split(";")[5]
            data += bytes.fromhex(payload[12:])
        else:
            if len(data) != 16 * blocks or crc16_modbus(data) != crc:
                sched.c09.append((nid, f"advert blocks={blocks} crc={crc:#06x} but served {len(data)} bytes with crc {crc16_modbus(data):#06x}"))
            for early in early_blocks.get(nid, []):
                _t, _v, blk = hex_to_words(early[:12], 3)
                if bytes.fromhex(early[12:]) != data[16 * blk : 16 * blk + 16]:
                    sched.c09.append((nid, f"block {blk} served during the update call differs from the advertised image"))
    return sched


def _c_part(args):
    import collections

    from .. import sched as S

    name, bound, roots, deadline, limit = args
    res = S.Result()
    found = {}
    outcomes = collections.Counter()

    def check(sched):
        outcomes[(tuple(e[2] for e in sched.log if e[0] == "write"), tuple(sched.c09))] += 1
        npre = S.preemptions(sched.points, len(sched.points))
        for nid, msg in sched.c09:
            sig = f"advert-vs-served|threaded|{name}"
            if sig not in found or npre < found[sig][2]:
                found[sig] = (f"node {nid}: {msg} (update call on another thread while the poll thread answered the request)", list(sched.choices), npre)
        for e in sched.log:
            if e[0] in ("pump-raised", "call-raised"):
                found.setdefault(f"update-call-vs-pump|{name}|{e[0]}|{e[1]}@{e[3]}", (f"{e[1]}: {e[2]} at {e[3]}", list(sched.choices), npre))
        if sched.problem in ("deadlock", "horizon"):
            found.setdefault(f"update-call-vs-pump|{name}|{sched.problem}", (f"execution ended in {sched.problem}", list(sched.choices), 0))

    complete, leftover = S.explore(lambda p: _c_run_one(name, p), check, bound, res, deadline=deadline, roots=roots, expand_limit=limit)
    return name, complete, leftover, res.executions, res.points, found, len(outcomes)


def run_part_c(report, tier):
    import multiprocessing
    import time

    from ..common import NPROC, Violation

    bound = 1 if tier == "quick" else 2
    deadline = time.time() + (240 if tier == "quick" else 900)
    ctx = multiprocessing.get_context("fork")
    per = {}
    total = {"executions": 0, "points": 0}

    def add(name, found):
        for sig, (msg, choices, npre) in found.items():
            report.add(Violation(PROP, sig, f"{msg} (schedule with {npre} preemption(s))", {"kind": "schedule", "check": PROP, "scenario": name, "choices": choices}))

    with ctx.Pool(NPROC) as pool:
        parts = []
        for name, complete, leftover, execs, points, found, nout in pool.imap(_c_part, [(n, bound, None, deadline, 20) for n in C_SCENARIOS]):
            per[name] = {"schedules": execs, "complete": complete, "distinct_outcomes": nout}
            total["executions"] += execs
            total["points"] += points
            add(name, found)
            chunks = [leftover[i::6] for i in range(6)]
            parts += [(name, bound, ch, deadline, None) for ch in chunks if ch]
        for name, complete, leftover, execs, points, found, nout in pool.imap_unordered(_c_part, parts):
            per[name]["schedules"] += execs
            per[name]["complete"] = per[name]["complete"] and complete
            per[name]["distinct_outcomes"] = max(per[name]["distinct_outcomes"], nout)
            total["executions"] += execs
            total["points"] += points
            add(name, found)
    return {"preemption_bound": bound, "schedules": total["executions"], "scheduling_decisions": total["points"], "scenarios": per,
            "rule": "application thread calling make_update (a corrected image under an already registered type/version) against the real poll thread answering queued config/block requests of the same nodes; every schedule up to the preemption bound at line granularity of ota.py; afterwards every node that was given an advert fetches all advertised blocks sequentially; oracle: served bytes have the advertised length and CRC"}


def replay(data):
    case = data["replay"].get("case")
    logging.disable(logging.CRITICAL)
    if data["replay"].get("kind") == "history":
        print("history case: re-running the check")
        return run("quick")
    if data["replay"].get("kind") == "schedule":
        sched = _c_run_one(data["replay"]["scenario"], list(data["replay"]["choices"]))
        print(f"schedule replayed ({len(sched.points)} points); writes: {[e[2] for e in sched.log if e[0] == 'write']}; findings: {sched.c09}")
        if sched.c09:
            print(f"VIOLATION property={PROP} replay=<replayed>")
            return 1
        print("did not reproduce on the current tree")
        return 0
    if case and case[0] == "crc":
        viols, _, _ = check_crc([(case[1], case[2])])
    else:
        case = list(case)
        case[2] = tuple(case[2])
        viols, _, _ = check_images([tuple(case)])
    sigs = sorted(v.signature for v in viols)
    print(f"{case}: violations {sigs}")
    if data["signature"] in sigs:
        print(f"VIOLATION property={PROP} replay=<replayed>")
        return 1
    print("did not reproduce on the current tree")
    return 0
