"""C17 - MQTT topics and commands map one-to-one (E5 mapping/acceptance + E1 subscriptions)."""
import collections
import itertools
import logging
import os

from .. import alpha, e5, explore
from ..common import Report, Violation, short
from ..ref_codec import Malformed, decode_line, mqtt_accepts, mqtt_match, mqtt_topic_of
from ..world import World, _fresh_dir

PROP = "C17"


def prefixes():
    levels = ["a", "1", "12", "a-b"]
    out = [""]
    for n in (1, 2, 3):
        for tup in itertools.product(levels, repeat=n):
            out.append("/".join(tup))
    out += ["1/2/1/0/2", "0/0/0/0/0", "1/1/1/1/1/1", "1/1", "0"]
    seen = []
    for p in out:
        if p not in seen:
            seen.append(p)
    return seen


def new_gateway(in_prefix, out_prefix, log):
    from mysensors.gateway_mqtt import MQTTGateway

    def pub(topic, payload, qos, retain):
        log.append((topic, payload, qos, retain))

    return MQTTGateway(pub, lambda *a: None, in_prefix=in_prefix, out_prefix=out_prefix, retain=True, protocol_version="2.2")


def queued(gw):
    out = [args[0] for func, args in gw.tasks.queue]
    gw.tasks.queue.clear()
    return out


def check_roundtrip(chunk):
    logging.disable(logging.CRITICAL)
    viols, stats, samples = [], collections.Counter(), []
    payloads = ["", "0", "a b", " lead", "é", "a/b", "#", "+"]
    for in_p, out_p in chunk:
        log = []
        gw = new_gateway(in_p, out_p, log)
        tr = gw.tasks.transport
        for node, child, cmd, ack, sub in itertools.product([0, 1, 254, 255], [0, 2, 255], range(5), [0, 1], [0, 1, 47]):
            for payload in payloads if (node, child) in ((1, 0), (255, 255)) else payloads[:2]:
                line = f"{node};{child};{cmd};{ack};{sub};{payload}\n"
                rep = {"kind": "input", "check": PROP, "case": ["roundtrip", in_p, out_p, line]}
                stats["roundtrips"] += 1
                del log[:]
                try:
                    tr.send(line)
                except Exception as exc:  # pylint: disable=broad-except
                    viols.append(Violation(PROP, f"send-raises|{type(exc).__name__}", f"send({line!r}) with out prefix {out_p!r}: {type(exc).__name__}: {exc}", rep))
                    continue
                if len(log) != 1:
                    viols.append(Violation(PROP, "publish-count", f"send({line!r}) published {len(log)} messages", rep))
                    continue
                topic, pl, qos, retain = log[0]
                want_topic = mqtt_topic_of(out_p, node, child, cmd, ack, sub)
                if topic != want_topic or pl != payload or retain is not True:
                    viols.append(Violation(PROP, "publish-mapping", f"send({line!r}) published {(topic, pl, retain)}, expected {(want_topic, payload, True)}", rep))
                    continue
                if (qos > 0) != (ack == 1):
                    viols.append(Violation(PROP, "publish-qos", f"send({line!r}) published with qos {qos}", rep))
                # the broker hands it back on the inbound prefix, at each QoS that keeps the ack meaning
                back_topic = in_p + topic[len(out_p):]
                for rqos in ((1, 2) if ack == 1 else (0,)):
                    try:
                        tr.recv(back_topic, pl, rqos)
                    except Exception as exc:  # pylint: disable=broad-except
                        viols.append(Violation(PROP, f"recv-raises|{type(exc).__name__}", f"recv({back_topic!r}) with in prefix {in_p!r}: {type(exc).__name__}: {exc}", rep))
                        continue
                    got = queued(gw)
                    stats["recv_calls"] += 1
                    if len(got) != 1:
                        viols.append(Violation(PROP, "roundtrip-not-accepted" if not got else "roundtrip-duplicated", f"in prefix {in_p!r}: recv({back_topic!r}, {pl!r}, {rqos}) queued {got}", rep))
                        continue
                    try:
                        fields = decode_line(got[0])
                    except Malformed:
                        fields = None
                    if fields != (node, child, cmd, ack, sub, payload.rstrip()):
                        viols.append(Violation(PROP, "roundtrip-differs", f"in prefix {in_p!r}: {line!r} came back as {got[0]!r}", rep))
                # qos/ack mapping inbound: any qos > 0 means ack 1, qos 0 means ack 0 whatever the topic level says
                for rqos in (0, 1, 2):
                    tr.recv(back_topic, pl, rqos)
                    got = queued(gw)
                    if len(got) == 1:
                        try:
                            f = decode_line(got[0])
                            if f[3] != (1 if rqos > 0 else 0):
                                viols.append(Violation(PROP, "inbound-qos-ack", f"recv(qos={rqos}) produced ack {f[3]}", rep))
                        except Malformed:
                            pass
        if not samples:
            samples.append(["roundtrip", in_p, out_p])
    return viols, stats, samples


def topics_for(pfx2, k_levels):
    lv = ["1", "0", "a"]
    for k in range(0, 8):
        if k == 0:
            combos = [()]
        elif k <= 2:
            combos = itertools.product(lv, repeat=k)
        else:
            combos = [tuple(lv[(i + j) % 3] for i in range(k)) for j in range(3)] + [("1",) * k]
        for tup in combos:
            tail = "/".join(tup)
            yield pfx2 + "/" + tail, False
            yield pfx2 + tail, False
    # empty message levels: only required not to raise
    yield pfx2 + "//1/2/3/0", True
    yield pfx2 + "/1/1/1/1/", True
    yield pfx2 + "/////", True


def check_accept(chunk):
    logging.disable(logging.CRITICAL)
    viols, stats, samples = [], collections.Counter(), []
    allp = prefixes()
    for in_p in chunk:
        log = []
        gw = new_gateway(in_p, "out", log)
        tr = gw.tasks.transport
        for p2 in allp:
            for topic, unspec in topics_for(p2, None):
                stats["topics"] += 1
                rep = {"kind": "input", "check": PROP, "case": ["accept", in_p, topic]}
                try:
                    tr.recv(topic, "x", 0)
                except Exception as exc:  # pylint: disable=broad-except
                    viols.append(Violation(PROP, f"recv-raises|{type(exc).__name__}", f"in prefix {in_p!r}: recv({topic!r}) raised {type(exc).__name__}: {exc}", rep))
                    queued(gw)
                    continue
                got = queued(gw)
                levels = mqtt_accepts(in_p, topic)
                if unspec or (levels is not None and "" in levels):
                    stats["unspec_empty_level"] += 1
                    continue
                if levels is None:
                    stats["expect_reject"] += 1
                    if got:
                        viols.append(Violation(PROP, "foreign-topic-accepted", f"in prefix {in_p!r}: topic {topic!r} was accepted as {got}", rep))
                else:
                    stats["expect_accept"] += 1
                    want = ";".join(levels[:3] + ["0", levels[4], "x"])
                    if got != [want]:
                        cls = "digit-prefix" if in_p and all(ch.isdigit() or ch == "/" for ch in in_p) else ("empty-prefix" if not in_p else "text-prefix")
                        viols.append(Violation(PROP, f"own-topic-rejected|{cls}" if not got else f"own-topic-misparsed|{cls}", f"in prefix {in_p!r}: topic {topic!r} gave {got}, expected [{want!r}]", rep))
        if not samples:
            samples.append(["accept", in_p])
    return viols, stats, samples


# -- (c) subscriptions -------------------------------------------------------------------------


class SubMonitor:
    def __init__(self, cfg):
        self.stats = collections.Counter()
        self.subs = ()
        self.started = False
        # children whose topics the statement requires: those the gateway knew when start() ran (restored by an earlier
        # start_persistence()) and those presented since; children that only appear because start_persistence() runs
        # AFTER start() (not the documented order) are not required
        self.required_children = frozenset()
        self.known_before = frozenset()

    def clone(self):
        other = SubMonitor(None)
        other.subs = self.subs
        other.started = self.started
        other.required_children = self.required_children
        other.known_before = self.known_before
        return other

    def key(self):
        return (self.subs, self.started, self.required_children)

    def step(self, world, ev, obs):
        viols = []
        now = frozenset((nid, cid) for nid, sensor in world.gw.sensors.items() for cid in sensor.children)
        if ev[0] == "start":
            self.started = True
            self.required_children = self.required_children | now
        elif self.started and ev[0] == "rx":
            self.required_children = self.required_children | (now - self.known_before)
        self.known_before = now
        self.subs = tuple(sorted({t for t, _ in world.all_subs}))
        if obs.exc is not None:
            viols.append(Violation(PROP, f"exception|{ev[0]}|{obs.exc['type']}@{obs.exc['site']}", f"{short(ev)} raised {obs.exc['type']}: {obs.exc['text']} ({obs.where})", None))
            return viols
        if not self.started:
            return viols
        prefix = world.in_prefix
        need = []
        for n, c, a, s in itertools.product([1, 2, 9, 255], [0, 1, 255], [0, 1], [0, 17]):
            need.append(("presentation", mqtt_topic_of(prefix, n, c, 0, a, s)))
            need.append(("internal", mqtt_topic_of(prefix, n, c, 3, a, s)))
        for nid, cid in sorted(self.required_children):
            for a, s in ((0, 2), (1, 47)):
                need.append(("set", mqtt_topic_of(prefix, nid, cid, 1, a, s)))
                need.append(("req", mqtt_topic_of(prefix, nid, cid, 2, a, s)))
        for nid in sorted({n for n, _ in self.required_children}):
            need.append(("stream", mqtt_topic_of(prefix, nid, 255, 4, 0, 0)))
            need.append(("stream", mqtt_topic_of(prefix, nid, 255, 4, 0, 2)))
        for kind, topic in need:
            self.stats["required_topics_checked"] += 1
            if not any(mqtt_match(f, topic) for f in self.subs):
                how = "restored" if world.persistence and not any(e for e in ()) else "presented"
                viols.append(Violation(PROP, f"subscription-missing|{kind}", f"after {short(ev)}: no subscription filter covers {topic!r} (filters: {short(self.subs, 300)})", None))
                break
        return viols


class SubSpec(explore.Spec):
    prop = PROP
    use_snapshots = False

    def configs(self, tier):
        out = []
        for flavour in ("sync", "async"):
            for restored in (False, True):
                for pubsub in ("record", "raise"):
                    out.append({"version": "2.2", "transport": "mqtt", "flavour": flavour, "restored": restored, "pubsub": pubsub, "cb": None, "in_prefix": "in/x"})
        # other prefix shapes: empty, a single level, a prefix whose last level is empty
        for prefix in ("", "m", "mys/", "/"):
            out.append({"version": "2.2", "transport": "mqtt", "flavour": "sync", "restored": prefix == "mys/", "pubsub": "record", "cb": None, "in_prefix": prefix})
        # start() and start_persistence() in either order (event 'startp'); children presented after start() on nodes that
        # were restored late still get their topics and their node's stream topic
        for flavour in ("sync", "async"):
            out.append({"version": "2.2", "transport": "mqtt", "flavour": flavour, "restored": True, "pubsub": "record", "cb": None, "in_prefix": "in/x", "defer_start": True})
        return out

    def make_world(self, cfg):
        wcfg = {k: v for k, v in cfg.items() if k != "restored"}
        if cfg["restored"]:
            from .c12 import make_gateway

            d = _fresh_dir()
            path = os.path.join(d, "p.json")
            make_gateway(path, ["5;255;0;0;17;2.2", "5;3;0;0;3;kept", "6;255;0;0;17;2.2", "6;0;0;0;6;t", "7;255;0;0;17;2.2"]).tasks.persistence.save_sensors()
            wcfg["persistence"] = "json"
            wcfg["persist_dir"] = d
            world = World(wcfg)
            world.cfg.pop("persist_dir")  # so that close() removes the directory
            world.dir = d
            return world
        return World(wcfg)

    def alphabet(self, cfg):
        t = alpha.lines("2.2")
        evs = [("start",)] + [alpha.rx(t[n]) for n in ("PA", "PB", "CA0", "CA1", "CB0", "CU0", "SA0", "RA0")]
        if cfg.get("defer_start"):
            evs += [("startp",), alpha.rx("5;9;0;0;3;late"), alpha.rx("7;1;0;0;3;first")]
        return evs

    def roots(self, cfg):
        if cfg.get("defer_start"):
            return [()]
        return [(("start",),)]

    def new_monitor(self, cfg):
        return SubMonitor(cfg)


def run(tier):
    logging.disable(logging.CRITICAL)
    report = Report(PROP, "model_checking", tier)
    allp = prefixes()
    pairs = [(p, "out") for p in allp] + [("in", p) for p in allp[:: 3]] + [(p, p) for p in allp[:: 5]]
    v1, s1, m1 = e5.pmap(check_roundtrip, pairs)
    v2, s2, m2 = e5.pmap(check_accept, allp)
    report.add_all(v1 + v2)
    sub = Report(PROP, "model_checking", tier)
    explore.run(SubSpec(), sub, tier, 5 if tier == "quick" else 7, 400000, 400)
    from ..explore import confirm

    for v in sub.violations.values():
        report.add(v)
    stats = s1 + s2
    cov = report.coverage
    cov.update({k: sub.coverage[k] for k in ("states", "transitions", "traces_validated_against_impl", "completed_depth", "caps_hit", "configs")})
    cov["evaluations"] = stats["roundtrips"] + stats["topics"] + sub.coverage["transitions"]
    cov["distinct_nontrivial"] = stats["roundtrips"] + stats["expect_accept"] + sub.coverage["states"]
    cov["rule"] = (
        f"(a) round trip: {len(pairs)} in/out prefix pairs x node {{0,1,254,255}} x child {{0,2,255}} x command 0..4 x ack x sub-type "
        "{0,1,47} x payloads, each sent through the real transport.send, handed back through transport.recv at every QoS and "
        f"compared with the independent topic codec; (b) acceptance: {len(allp)} inbound prefixes x topics built from every "
        "prefix of the same set + 0..7 levels (with and without the separator); (c) states/transitions: BFS over presentation "
        "histories on sync and asyncio MQTT gateways, with and without a restored persistence file, recording and raising "
        "pub/sub callbacks; after every step the subscription filters must cover every required topic (MQTT wildcard matching)"
    )
    cov["exhaustive"] = not sub.coverage["caps_hit"]
    cov["counts"] = dict(stats)
    cov["witnesses"] = sub.coverage["witnesses"]
    cov["samples"] = (m1 + m2)[:6] + sub.coverage["samples"][:2]
    report.assumptions = ["independent topic codec and MQTT wildcard matching in mc/ref_codec.py", "topics with an empty message level are UNSPEC for acceptance and only required not to raise", "prefix levels over {a, 1, 12, a-b} nested up to three deep, plus digit-only prefixes of five and six levels and the empty prefix"]
    return report.finish()


def replay(data):
    rep = data["replay"]
    logging.disable(logging.CRITICAL)
    if rep.get("kind") == "history":
        from .. import e1check

        return e1check.replay_history(SubSpec(), data)
    case = rep["case"]
    if case[0] == "roundtrip":
        viols, _, _ = check_roundtrip([(case[1], case[2])])
    else:
        viols, _, _ = check_accept([case[1]])
    sigs = sorted({v.signature for v in viols})
    print(f"{case[:3]}: violations {sigs}")
    if data["signature"] in sigs:
        print(f"VIOLATION property={PROP} replay=<replayed>")
        return 1
    print("did not reproduce on the current tree")
    return 0
