"""C11 - persistence round trip is exact in both formats (E1, model_checking)."""
import os
import shutil

from .. import alpha, e1check, explore
from ..common import Violation, short
from ..explore import NullMonitor
from ..world import World, _fresh_dir
from .c14 import diff_trees

PROP = "C11"
PAYLOADS = ["", "1", "é", "\U0001d11e", 'a"b\\c', "a b", "\x00", "x" * 300, "{\"id\": 1}", "١٢", "\ud800"]


class C11Spec(explore.Spec):
    prop = PROP
    has_at_state = True

    def __init__(self, tier="quick"):
        self.tier = tier

    def configs(self, tier):
        versions = ("1.4", "2.2") if tier == "quick" else ("1.4", "1.5", "2.0", "2.1", "2.2")
        out = [{"version": v, "cb": None} for v in versions]
        # the gateway's own persistence (no event callback): what the periodic save writes must load back to the
        # current state, also for changes that arrive after the first save
        out += [{"version": "2.2", "cb": None, "persistence": fmt, "depth": 3} for fmt in ("json", "pickle")]
        return out

    def alphabet(self, cfg):
        v = cfg["version"]
        t = alpha.lines(v)
        evs = [alpha.rx(t[n]) for n in ("PA", "IDR", "CA0", "CA1", "SA0", "BAT", "SKV") if n in t]
        evs += [alpha.rx(f"0;255;0;0;17;{v}"), alpha.rx(f"255;255;0;0;18;{v}"), alpha.rx("0;0;0;0;3;"), alpha.rx("1;255;0;0;17;1.5")]
        if "WA" in t:
            evs += [alpha.rx(t["WA"]), alpha.rx(t["RA0"]), ("set", 1, 0, 2, "0")]
        evs += [("fw", 1, 1, 1, "F1")]
        vt = 47 if v >= "2.0" else 24
        payloads = PAYLOADS if self.tier == "thorough" else PAYLOADS[:6] + PAYLOADS[-1:]
        for p in payloads:
            evs.append(alpha.rx(f"1;0;1;0;{vt};{p}"))
            evs.append(alpha.rx(f"1;255;3;0;11;{p}"))
        for p in payloads[2:6]:
            evs.append(alpha.rx(f"1;2;0;0;23;{p}"))
        if v >= "2.0":
            evs.append(alpha.rx("1;255;3;0;22;-5"))
        return evs

    def new_monitor(self, cfg):
        return NullMonitor()

    def at_state(self, world, monitor, hist, cfg):
        from mysensors.persistence import Persistence

        if world.dead is not None:
            return []
        viols = []
        original = world.tree()
        monitor.stats["states_round_tripped"] += 1
        if world.persistence:
            from .c15 import load_copy

            obs = world.apply(("tick",))
            monitor.stats["own_periodic_saves"] += 1
            rep = {"kind": "history+probe", "check": PROP, "cfg": cfg, "history": list(hist)}
            if obs.exc is not None:
                return [Violation(PROP, f"periodic-save-raises|{world.persistence}|{obs.exc['type']}", f"periodic save raised {obs.exc['type']}: {obs.exc['text']}", rep)]
            try:
                got = load_copy(world.dir, world.persistence)
            except Exception as exc:  # pylint: disable=broad-except
                return [Violation(PROP, f"load-raises|{world.persistence}|{type(exc).__name__}", f"loading what the periodic save wrote raised {type(exc).__name__}", rep)]
            if got != original:
                cls, text = diff_trees(original, got)
                return [Violation(PROP, f"periodic-save-round-trip|{world.persistence}|{cls}", f"what the gateway's periodic save wrote does not load back to the current state: {text}", rep)]
            return []
        if any(s.new_state or s.queue or s.reboot for s in world.gw.sensors.values()):
            monitor.stats["states_with_transient_data"] += 1
        restored = {}
        replay = {"kind": "history+probe", "check": PROP, "cfg": cfg, "history": list(hist)}
        for fmt in ("json", "pickle"):
            directory = _fresh_dir()
            try:
                path = os.path.join(directory, f"p.{fmt}")
                try:
                    Persistence(world.gw.sensors, lambda save: (lambda: None), persistence_file=path).save_sensors()
                except Exception as exc:  # pylint: disable=broad-except
                    viols.append(Violation(PROP, f"save-raises|{fmt}|{type(exc).__name__}", f"saving as {fmt} raised {type(exc).__name__}: {short(str(exc))}", replay))
                    continue
                w2 = None
                try:
                    w2 = World({"version": cfg["version"], "persistence": fmt, "persist_dir": directory, "cb": None})
                except Exception as exc:  # pylint: disable=broad-except
                    viols.append(Violation(PROP, f"load-raises|{fmt}|{type(exc).__name__}", f"loading the {fmt} file raised {type(exc).__name__}: {short(str(exc))}", replay))
                    continue
                try:
                    got = w2.tree()
                except Exception as exc:  # pylint: disable=broad-except
                    kinds = sorted({type(x).__name__ for x in w2.gw.sensors.values()})
                    viols.append(Violation(PROP, f"load-yields-malformed-objects|{fmt}|{type(exc).__name__}", f"the {fmt} file loads to objects that are not nodes ({kinds}): {type(exc).__name__}: {short(str(exc))}", replay))
                    w2.close()
                    continue
                restored[fmt] = got
                monitor.stats["loads"] += 1
                if got != original:
                    cls, text = diff_trees(original, got)
                    viols.append(Violation(PROP, f"round-trip|{fmt}|{cls}", f"{fmt} round trip: {text}", replay))
                for nid, sensor in w2.gw.sensors.items():
                    if sensor.new_state or len(sensor.queue) or sensor.reboot:
                        viols.append(Violation(PROP, f"transient-resurrected|{fmt}", f"{fmt}: node {nid} came back with transient state", replay))
                    if type(sensor.queue).__name__ != "deque" or not isinstance(sensor.new_state, dict):
                        viols.append(Violation(PROP, f"transient-shape|{fmt}", f"{fmt}: node {nid} transient fields have the wrong shape", replay))
                # loaded nodes are independent objects: putting one restored node to sleep (and withholding a
                # reply for it) must not give any other restored node transient state
                sleeper = next((nid for nid, sn in w2.gw.sensors.items() if isinstance(nid, int) and sn.children and 0 < nid < 255), None)
                if sleeper is not None and len(w2.gw.sensors) > 1 and cfg["version"] >= "2.0":
                    wake = "22" if cfg["version"] in ("2.0", "2.1") else "32"
                    w2.apply(("rx", f"{sleeper};255;3;0;{wake};7"))
                    w2.apply(("rx", f"{sleeper};255;3;0;6;0"))
                    monitor.stats["post_load_independence_probes"] += 1
                    for nid, sensor in w2.gw.sensors.items():
                        if nid != sleeper and (sensor.new_state or len(sensor.queue) or sensor.reboot):
                            viols.append(Violation(PROP, f"restored-nodes-share-transient-state|{fmt}", f"{fmt}: after loading, node {sleeper} went to sleep and node {nid} picked up its transient state", replay))
                            break
                w2.close()
            finally:
                shutil.rmtree(directory, ignore_errors=True)
        if len(restored) == 2 and restored["json"] != restored["pickle"]:
            cls, text = diff_trees(restored["json"], restored["pickle"])
            viols.append(Violation(PROP, f"formats-differ|{cls}", f"json and pickle restore different states: {text}", replay))
        return viols


RULE = (
    "states = distinct canonical gateway states reached by BFS over presentations (node ids 0, 1, 255, id-assigned), "
    "children with and without values, value/description/sketch payload corpus (empty, non-ASCII, non-BMP, quotes and "
    "backslashes, NUL, 300 characters) and transient-state builders; in every state the tree is saved with the real "
    "Persistence.save_sensors as .json and .pickle and loaded by fresh gateways through start_persistence(); "
    "evaluations = loads; non-trivial = states round-tripped"
)
ASSUMPTIONS = [
    "payloads reach the gateway through protocol.handle_line (text level); byte-level decoding is C19's subject",
    "real files in a scratch directory (RAM disk)",
]


def run(tier):
    spec = C11Spec(tier)

    def extra(cov, wit):
        return {"evaluations": wit.get("loads", 0) + cov["transitions"], "distinct_nontrivial": wit.get("states_round_tripped", 0)}

    if tier == "quick":
        return e1check.run_e1(spec, tier, depth=4, state_budget=300000, time_budget=600, rule=RULE, assumptions=ASSUMPTIONS, extra_cov=extra)
    return e1check.run_e1(spec, tier, depth=5, state_budget=2000000, time_budget=1800, rule=RULE, assumptions=ASSUMPTIONS, extra_cov=extra)


def replay(data):
    return e1check.replay_history(C11Spec("thorough"), data)
