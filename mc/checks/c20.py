"""C20 - connections are supervised and the callbacks are exact (E4 virtual loop; E2 for the threaded kinds)."""
import collections
import itertools
import logging

from .. import e5, explore
from ..asyncworld import PROBE, VERSION_REPLY, AsyncWorld
from ..common import Report, Violation, short

PROP = "C20"
EVENTS = [("conn", "ok"), ("timer",), ("conn", "refuse"), ("conn", "stall"), ("conn", "unreachable"), ("lost", "error"), ("lost", "eof"), ("data",), ("send",), ("send-fail",), ("disconnect",), ("stop",)]


class SupervisionMonitor:
    """Counters and virtual-time bounds over one asyncio gateway run."""

    def __init__(self, cfg):
        self.stats = collections.Counter()
        self.cfg = cfg

    def clone(self):
        return SupervisionMonitor(self.cfg)

    def key(self):
        return None

    def v(self, world, clause, msg, detail=""):
        sig = f"{world.kind}-async|{clause}" + (f"|{detail}" if detail else "")
        return Violation(PROP, sig, msg, None)

    def step(self, world, ev, obs):
        viols = []
        if not obs.enabled or obs.where == "dead":
            return viols
        self.stats["events"] += 1
        loop = world.loop
        hist = short(world.events, 300)
        if obs.exc is not None:
            viols.append(self.v(world, "exception", f"{hist}: {ev} raised {obs.exc['type']}: {obs.exc['text']} at {obs.exc['site']}", f"{ev[0]}|{obs.exc['type']}@{obs.exc['site']}"))
            return viols
        for note in obs.notes:
            viols.append(self.v(world, "stop-hangs", f"{hist}: {note}"))
        if loop.handler_errors:
            err = loop.handler_errors[0]
            viols.append(self.v(world, "loop-error", f"{hist}: the event loop's exception handler was called: {short(err, 300)}", short(str(err.get('exception', err.get('message'))), 60)))
            world.dead = {"type": "loop-error"}
            return viols
        made, links = len(world.made), len(loop.links_made)
        if made != links:
            viols.append(self.v(world, "on_conn_made-count", f"{hist}: {links} link(s) established, connection-made callback fired {made} time(s)"))
        if any(not ok for _, ok in world.made):
            viols.append(self.v(world, "on_conn_made-arg", f"{hist}: connection-made callback did not receive the gateway"))
        ended = len(world.links_ended())
        if len(world.lost) != ended:
            idx = min(len(world.lost), len(world.loss_causes) - 1)
            how = world.loss_causes[idx] if world.loss_causes else ev[0]
            viols.append(self.v(world, "on_conn_lost-count", f"{hist}: {ended} link(s) ended, connection-lost callback fired {len(world.lost)} time(s)", f"link-ended-by-{how}"))
        live = [t for t in loop.links_made if not t.lost_reported and not t.closed]
        in_flight = len(loop.live_requests()) + len([f for f in world.stalled if not f.done()])
        if len(live) + in_flight > 1:
            # single-threaded flavour: one loss is answered by one dial, never by two
            viols.append(self.v(world, "duplicate-reconnect", f"{hist}: {len(live)} live link(s) and {in_flight} connect attempt(s) in flight at the same time"))
        # supervision: after a loss the user did not request, an attempt must be in flight (or a retry timer armed)
        if not world.user_disconnected:
            if not live and not loop.live_requests() and not [f for f in world.stalled if not f.done()] and not loop.pending_timers():
                how = ev[0] + ("/" + ev[1] if len(ev) > 1 else "")
                viols.append(self.v(world, "no-reconnect", f"{hist}: the link is down, the user did not ask for it, and neither a connect attempt nor a retry timer is pending", how))
            if ev[0] in ("lost", "send-fail") and not loop.live_requests():
                how = ev[1] if len(ev) > 1 else ev[0]
                viols.append(self.v(world, "no-immediate-reconnect", f"{hist}: no reconnect attempt follows the loss ({how})", how))
        # a link that the library itself gives up (watchdog) must have been silent for about two reconnect timeouts
        for link, cause, when in world.library_drops:
            quiet = when - max([link.t_made] + link.t_data)
            self.stats["library_drops_judged"] += 1
            if quiet < 2 * world.R - 1e-6:
                viols.append(self.v(world, "healthy-link-dropped", f"{hist}: the library dropped a link at t={when} that had been up / heard from only {quiet:.2f} s before (reconnect timeout {world.R})"))
        # retry interval: the attempt after a failed one starts exactly R after the failure
        if world.stopped:
            self.check_quiet_after_stop(world, viols, hist)
        else:
            self.check_intervals(world, viols, hist)
        return viols

    def check_intervals(self, world, viols, hist):
        fails = [(t, how) for t, how in world.attempt_results if how in ("refuse", "timeout", "unreachable")]
        # after each refusal at time t (not followed by stop/disconnect) the next attempt starts at t + R
        for t, how in fails:
            later = [a for a in world.attempts if a > t - 1e-9 and a != t]
            later = [a for a in world.attempts if a > t + 1e-9]
            if later:
                gap = min(later) - t
                self.stats["retry_intervals_checked"] += 1
                if abs(gap - world.R) > 1e-6:
                    viols.append(self.v(world, "retry-interval", f"{hist}: attempt refused at t={t}, next attempt at t={min(later)} (interval {gap}, configured {world.R})"))

    def check_quiet_after_stop(self, world, viols, hist):
        """After stop() returned: no writes, callbacks or connect attempts, whatever timers still fire."""
        loop = world.loop
        writes, made, lost, attempts = len(loop.all_writes), len(world.made), len(world.lost), len(world.attempts)
        guard = 0
        while loop.pending_timers() and guard < 20:
            loop.fire_next_timer()
            guard += 1
        world._note_attempts()
        self.stats["stops_checked"] += 1
        if len(loop.all_writes) != writes:
            viols.append(self.v(world, "write-after-stop", f"{hist}: a write happened after stop() returned"))
        if len(world.made) != made or len(world.lost) != lost:
            # the lost callback for the link closed by stop() itself is delivered during stop(); later ones are not
            viols.append(self.v(world, "callback-after-stop", f"{hist}: a connection callback fired after stop() returned"))
        # an attempt that was already in flight when stop() was called may still complete; a new one must not start
        if len(world.attempts) != attempts or any(a > world.stop_time + 1e-9 for a in world.attempts):
            viols.append(self.v(world, "connect-after-stop", f"{hist}: a new connect attempt was started after stop() returned (attempt times {world.attempts}, stop at {world.stop_time})"))
        if loop.handler_errors:
            viols.append(self.v(world, "loop-error-after-stop", f"{hist}: {short(loop.handler_errors[0], 200)}"))


class AsyncSpec(explore.Spec):
    prop = PROP
    use_snapshots = False

    def __init__(self, tier):
        self.tier = tier

    def configs(self, tier):
        dev = 3 if tier == "quick" else 4
        return [{"kind": k, "R": 10.0, "max_dev": dev} for k in ("serial", "tcp")]

    def make_world(self, cfg):
        return AsyncWorld(cfg)

    def alphabet(self, cfg):
        return [e for e in EVENTS if not (cfg["kind"] == "serial" and e == ("conn", "stall"))]

    def new_monitor(self, cfg):
        return SupervisionMonitor(cfg)


# -- (b) watchdog ----------------------------------------------------------------------------------


def watchdog_async(pattern, R=10.0, sleepy_gateway_node=False):
    """Async TCP gateway, fake peer answering probe i after pattern[i] (None = never). Returns observations.
    sleepy_gateway_node: node 0 (the gateway's own sensors) has presented itself and announced smart sleep before
    the first probe - the probe is the controller's own traffic and must still go out."""
    world = AsyncWorld({"kind": "tcp", "R": R, "max_dev": 99})
    loop = world.loop
    try:
        world.apply(("conn", "ok"))
        link = world.live_link()
        if sleepy_gateway_node:
            ver = world.gw.protocol_version
            wake = "0;255;3;0;32;500" if ver.startswith("2.2") else "0;255;3;0;22;1"
            for line in (f"0;255;0;0;18;{ver}", "0;1;0;0;3;", "0;1;1;0;2;1", wake):
                loop.call(link.protocol.data_received, (line + "\n").encode())
            loop.run_ready()
            del link.writes[:]
        t0 = loop.time()
        probes = []
        answers = []
        horizon = t0 + (len(pattern) + 4) * (R + 0.1) + 3 * R
        drop_time = None
        guard = 0
        while loop.time() < horizon and guard < 500:
            guard += 1
            # schedule answers for probes not yet handled
            for when, data in link.writes[len(probes):]:
                idx = len(probes)
                probes.append(when)
                lat = pattern[idx] if idx < len(pattern) else None
                if lat is not None and data == PROBE:
                    answers.append(when + lat)
                    loop.call(loop.call_at, when + lat, _deliver, link, loop)
            if link.closed or link.lost_reported:
                drop_time = loop.time()
                break
            if not loop.fire_next_timer():
                break
        world._note_attempts()
        redial = [a for a in world.attempts if drop_time is not None and a >= drop_time - 1e-9]
        return {"t0": t0, "probes": probes, "answers": [a for a in answers if drop_time is None or a <= drop_time], "drop": drop_time, "redial": redial[:1], "errors": list(loop.handler_errors), "lost_cb": list(world.lost)}
    finally:
        world.close()


def _deliver(link, loop):
    if not link.closed and not link.lost_reported:
        link.protocol.data_received(VERSION_REPLY)


def check_watchdog(chunk):
    logging.disable(logging.CRITICAL)
    viols, stats, samples = [], collections.Counter(), []
    R = 10.0
    for flavour, pattern in chunk:
        stats["latency_patterns"] += 1
        rep = {"kind": "watchdog", "check": PROP, "flavour": flavour, "pattern": list(pattern)}
        res = watchdog_async(pattern, R, sleepy_gateway_node=flavour == "async-sleepy-node0")
        all_fast = all(lat is not None and lat < R for lat in pattern)
        last_heard = max([res["t0"]] + res["answers"])
        if res["errors"]:
            viols.append(Violation(PROP, f"watchdog|{flavour}|loop-error", f"latencies {pattern}: {short(res['errors'][0], 200)}", rep))
        answered_all = len(res["probes"]) <= len(pattern) and all_fast
        if res["drop"] is not None:
            silence = res["drop"] - last_heard
            stats["drops"] += 1
            if all_fast and len(res["probes"]) <= len(pattern):
                viols.append(Violation(PROP, f"watchdog|{flavour}|dropped-although-answered", f"latencies {pattern} (all < R={R}): link dropped at t={res['drop']}", rep))
            elif silence < 2 * R - 1e-6 or silence > 3 * R + 0.2 + 1e-6:
                viols.append(Violation(PROP, f"watchdog|{flavour}|drop-time", f"latencies {pattern}: silent since t={last_heard}, dropped at t={res['drop']} ({silence / R:.2f} R of silence, expected 2..3 R)", rep))
            elif all(lat is None for lat in pattern) and silence > 2.1 * R + 1e-6:
                # a link that never answers at all: 'dropped within about twice the timeout' (no phase slack to add)
                viols.append(Violation(PROP, f"watchdog|{flavour}|drop-time|silent-from-start", f"link silent from the start dropped only at t={res['drop']} ({silence / R:.2f} R), expected about 2 R", rep))
            if not res["redial"]:
                viols.append(Violation(PROP, f"watchdog|{flavour}|no-redial", f"latencies {pattern}: link dropped at t={res['drop']} but no new connect attempt follows", rep))
            elif res["redial"][0] - res["drop"] > 1e-6:
                viols.append(Violation(PROP, f"watchdog|{flavour}|late-redial", f"latencies {pattern}: dropped at {res['drop']}, re-dialled at {res['redial'][0]}", rep))
        else:
            stats["kept"] += 1
            if not all_fast:
                viols.append(Violation(PROP, f"watchdog|{flavour}|silent-link-kept", f"latencies {pattern}: the link was never dropped within the horizon", rep))
        if not samples:
            samples.append([flavour, list(pattern), res["drop"]])
    return viols, stats, samples


def run(tier):
    logging.disable(logging.CRITICAL)
    report = Report(PROP, "model_checking", tier)
    spec = AsyncSpec(tier)
    explore.run(spec, report, tier, 8 if tier == "quick" else 10, 600000, 300 if tier == "quick" else 1800)
    for v in list(report.violations.values()):
        if v.replay and v.replay.get("kind") == "history" and not explore.confirm(spec, v):
            from ..common import HarnessError

            raise HarnessError(f"{v.signature} did not reproduce")
    R = 10.0
    lats = [0.0, 0.15, R / 2, 0.95 * R, None]  # 0.15 s: an answer that lands between a probe and the timer's 0.1 s margin
    patterns = [("async", p) for p in itertools.product(lats, repeat=4)]
    patterns += [("async-sleepy-node0", p) for p in itertools.product([0.0, R / 2, None], repeat=3)]
    v2, s2, m2 = e5.pmap(check_watchdog, patterns)
    report.add_all(v2)
    from . import c20t

    part_threaded = c20t.run_part(report, tier)
    tl = [0.0, c20t.R / 2, 0.95 * c20t.R, None]
    tpatterns = list(itertools.product(tl, repeat=3 if tier == "quick" else 4))
    # the link comes up only after k refused attempts (each followed by the retry pause): the watchdog's clocks
    # start with the link, not with the dialling
    tpatterns += [("refused", k) + p for k in (1, 2, 3) for p in [(), (0.0, 0.0, 0.0), (c20t.R / 2, None), (0.95 * c20t.R, 0.95 * c20t.R, 0.95 * c20t.R)]]
    v3, s3, m3 = e5.pmap(c20t.check_watchdog_threaded, tpatterns)
    report.add_all(v3)
    part_threaded["watchdog"] = dict(s3)
    cov = report.coverage
    cov["evaluations"] = cov["transitions"] + s2["latency_patterns"] + part_threaded.get("executions", 0)
    cov["distinct_nontrivial"] = cov["states"] + s2["drops"]
    cov["rule"] = (
        "(a) asyncio kinds: BFS over environment-event sequences (connect ok/refused/stalled, timer fires, link lost with "
        "error / orderly close, data arrives, user sends, user disconnect, stop) on the real AsyncSerialGateway/"
        "AsyncTCPGateway on a virtual loop, at most the stated number of deviations from the default answers (connect ok, "
        "next timer); after every event the callback/attempt/write counters and retry intervals are judged, after stop() "
        "all remaining timers are fired and silence is required; (b) watchdog: all 5^4 probe-answer latency patterns "
        "{0, 0.15 s, R/2, 0.95R, never} on the virtual clock (a link silent from the start must be dropped within 2.1 R); threaded kinds: see coverage.threaded"
    )
    cov["watchdog"] = dict(s2)
    cov["threaded"] = part_threaded
    cov["samples"] = cov.get("samples", [])[:4] + m2[:3]
    report.assumptions = [
        "fake asyncio transports per DESIGN appendix B: write after close is ignored, close() schedules connection_lost(None)",
        "'about twice' is read as [2R, 3R] (+ the 0.1 s slack of the asyncio check timer)",
        "the error argument of the connection-lost callback is not prescribed and only recorded",
    ]
    return report.finish()


def replay(data):
    rep = data["replay"]
    logging.disable(logging.CRITICAL)
    if rep.get("kind") == "history":
        from .. import e1check

        return e1check.replay_history(AsyncSpec("thorough"), data)
    if rep.get("kind") == "watchdog-threaded":
        from . import c20t

        viols, _, _ = c20t.check_watchdog_threaded([tuple(rep["pattern"])])
        sigs = sorted({v.signature for v in viols})
        print(f"pattern {rep['pattern']}: violations {sigs}")
        if data["signature"] in sigs:
            print(f"VIOLATION property={PROP} replay=<replayed>")
            return 1
        print("did not reproduce on the current tree")
        return 0
    if rep.get("kind") == "watchdog":
        viols, _, _ = check_watchdog([(rep["flavour"], tuple(rep["pattern"]))])
        sigs = sorted({v.signature for v in viols})
        print(f"pattern {rep['pattern']}: violations {sigs}")
        if data["signature"] in sigs:
            print(f"VIOLATION property={PROP} replay=<replayed>")
            return 1
        print("did not reproduce on the current tree")
        return 0
    from . import c20t

    return c20t.replay(data)
