"""C16 - sending races safely with connection loss and shutdown (E2, model_checking)."""
import collections
import multiprocessing
import time

from .. import sched as S
from ..common import NPROC, HarnessError, Report, Violation, short

PROP = "C16"
CMD = "1;255;3;0;6;M\n"
CMD2 = "22;7;1;0;2;55\n"
CMD3 = "33;7;1;0;2;0\n"
TRACE = ("mysensors/transport.py", "mysensors/task.py")
TRACE_BY_HARNESS = {"H8-tcp-write-vs-disconnect": ("mysensors/transport.py",), "H9-tcp-send-buffer-full": ("mysensors/transport.py",)}


class Conn:
    """Fake connection object: write raises OSError when closed (as a closed serial port / socket does)."""

    def __init__(self, log, name):
        self.log = log
        self.name = name
        self.open = True
        self.serial = self
        self.fail_writes = False

    def write(self, data):
        sched = S.ACTIVE
        if sched is not None:
            sched.point(("conn.write", self.name))
        if not self.open:
            self.log.append(("write-on-closed", self.name, bytes(data)))
            raise OSError(f"write on closed connection {self.name}")
        if self.fail_writes:
            self.log.append(("write-fails", self.name, bytes(data)))
            raise OSError("device error (harness)")
        self.log.append(("write", self.name, bytes(data)))

    def close(self):
        sched = S.ACTIVE
        if sched is not None:
            sched.point(("conn.close", self.name))
        self.open = False
        self.log.append(("close", self.name))

    def __repr__(self):
        return f"<Conn {self.name}>"


class SerialLikeConn(Conn):
    """What pyserial's ReaderThread + Serial look like to the transport (H12): write() and close() are serialised by the
    reader thread's lock, a write has an inside (the port takes the data in two steps), and cancel_write() - which takes
    no lock - makes a write in progress return short, as pyserial's does."""

    def __init__(self, log, name):
        super().__init__(log, name)
        self._lock = S.CoopLock(f"reader-lock-{name}")
        self.in_write = False
        self.cancelled = False

    def write(self, data):
        sched = S.ACTIVE
        self._lock.acquire()
        try:
            if not self.open:
                self.log.append(("write-on-closed", self.name, bytes(data)))
                raise OSError(f"write on closed connection {self.name}")
            data = bytes(data)
            half = len(data) // 2
            self.cancelled = False
            self.in_write = True
            if sched is not None:
                sched.point(("port.write-mid", self.name))
            self.in_write = False
            if self.cancelled:
                self.log.append(("sendall-cut-off", self.name, data[:half]))
                return half
            self.log.append(("write", self.name, data))
            return len(data)
        finally:
            self._lock.release()

    def cancel_write(self):
        sched = S.ACTIVE
        if sched is not None:
            sched.point(("port.cancel_write", self.name))
        if self.in_write:
            self.cancelled = True
        self.log.append(("cancel_write", self.name))

    def close(self):
        self._lock.acquire()
        try:
            self.open = False
            self.log.append(("close", self.name))
        finally:
            self._lock.release()


def make_gateway(log, connect_ok=True):
    from mysensors.gateway_serial import SerialGateway

    gw = SerialGateway("/dev/verif", protocol_version="2.2")
    transport = gw.tasks.transport
    counter = [0]

    def fake_connect(tr):
        """Stands in for sync_connect: runs in the library's connect thread."""
        while tr.protocol:
            counter[0] += 1
            conn = Conn(log, f"c{counter[0]}")
            log.append(("connected", conn.name))
            proto = tr.protocol
            if proto is None:
                return
            proto.connection_made(conn)
            return

    transport._connect = fake_connect
    first = Conn(log, "c0")
    transport.protocol.connection_made(first)
    gw.on_conn_lost = lambda g, exc: log.append(("on_conn_lost", type(exc).__name__ if exc else None))
    gw.on_conn_made = lambda g: log.append(("on_conn_made",))
    S.PUMP_TASKS[0] = gw.tasks
    return gw, transport, first


class LoggingDeque(collections.deque):
    def __init__(self, log):
        super().__init__()
        self._log = log

    def append(self, item):
        super().append(item)
        self._log.append(("queued", item[1][0] if item[1] else None))


# -- harness bodies --------------------------------------------------------------------------------


def h_send_vs(event):
    """One sender against one concurrent connection event."""

    def body(sched):
        log = sched.log
        gw, transport, conn = make_gateway(log)
        proto = transport.protocol

        def sender():
            try:
                transport.send(CMD)
            except Exception as exc:  # pylint: disable=broad-except
                log.append(("send-raised", type(exc).__name__, str(exc)[:120], S._site(exc)))

        def other():
            try:
                if event == "lost-none":
                    proto.connection_lost(None)
                elif event == "lost-error":
                    proto.connection_lost(OSError("read failed (harness)"))
                elif event == "disconnect":
                    transport.disconnect()
                elif event == "lost-then-made":
                    proto.connection_lost(None)
                    proto.connection_made(Conn(log, "c9"))
                elif event == "disconnect-write-fails":
                    transport.disconnect()
            except Exception as exc:  # pylint: disable=broad-except
                log.append(("event-raised", type(exc).__name__, str(exc)[:120], S._site(exc)))

        if event == "disconnect-write-fails":
            conn.fail_writes = True
        t1 = sched.spawn(sender, "sender")
        t2 = sched.spawn(other, "event")
        sched.block(lambda: not t1.alive and not t2.alive, ("join-all",))
        # let a reconnect thread (if any) finish
        sched.block(lambda: all(not t.alive for t in sched.threads[1:]), ("join-rest",))

    return body


def h_producers(sched):
    """Two producers (two commands each) || the real poll loop; stop after the drain."""
    log = sched.log
    gw, transport, conn = make_gateway(log)
    tasks = gw.tasks
    tasks.queue = LoggingDeque(log)
    cmds = {"p1": ["1;255;3;0;6;A\n", "1;255;3;0;6;B\n"], "p2": ["2;255;3;0;6;C\n", "2;255;3;0;6;D\n"]}

    def producer(name):
        def run():
            for c in cmds[name]:
                tasks.add_job(str, c)
        return run

    def pump():
        try:
            tasks._poll_queue()
        except Exception as exc:  # pylint: disable=broad-except
            log.append(("pump-raised", type(exc).__name__, str(exc)[:120], S._site(exc)))

    tp = sched.spawn(pump, "pump")
    t1 = sched.spawn(producer("p1"), "p1")
    t2 = sched.spawn(producer("p2"), "p2")
    sched.block(lambda: not t1.alive and not t2.alive, ("join-producers",))
    sched.block(lambda: (not tasks.queue and sum(1 for e in log if e[0] == "write") >= 4) or not tp.alive, ("drained",))
    tasks._stop_event.set()
    sched.block(lambda: not tp.alive, ("join-pump",))


def h_pump_vs_lost(sched):
    """H10: two commands are queued; the real poll loop drains them while the reader thread reports a link
    failure (reconnect follows). The pump must survive, and every command reaches a connection at most once."""
    log = sched.log
    gw, transport, conn = make_gateway(log)
    tasks = gw.tasks
    proto = transport.protocol
    tasks.add_job(str, CMD)
    tasks.add_job(str, CMD2)

    def pump():
        try:
            tasks._poll_queue()
        except Exception as exc:  # pylint: disable=broad-except
            log.append(("pump-raised", type(exc).__name__, str(exc)[:120], S._site(exc)))

    def reader():
        try:
            proto.connection_lost(OSError("read failed (harness)"))
        except Exception as exc:  # pylint: disable=broad-except
            log.append(("event-raised", type(exc).__name__, str(exc)[:120], S._site(exc)))

    tp = sched.spawn(pump, "pump")
    t2 = sched.spawn(reader, "event")
    sched.block(lambda: not t2.alive and (not tasks.queue or not tp.alive), ("drained",))
    tasks._stop_event.set()
    sched.block(lambda: not tp.alive, ("join-pump",))
    sched.block(lambda: all(not t.alive for t in sched.threads[1:]), ("join-rest",))


def h_pump_vs_stop(sched):
    """H11: two commands are queued; the real poll loop drains them while the application thread calls stop().
    Whatever stop() does with the queue, the pump survives, each command is written at most once, in order."""
    log = sched.log
    gw, transport, conn = make_gateway(log)
    tasks = gw.tasks
    tasks.add_job(str, CMD)
    tasks.add_job(str, CMD2)

    def pump():
        try:
            tasks._poll_queue()
        except Exception as exc:  # pylint: disable=broad-except
            log.append(("pump-raised", type(exc).__name__, str(exc)[:120], S._site(exc)))

    def stopper():
        try:
            tasks.stop()
        except Exception as exc:  # pylint: disable=broad-except
            log.append(("event-raised", type(exc).__name__, str(exc)[:120], S._site(exc)))

    tp = sched.spawn(pump, "pump")
    t2 = sched.spawn(stopper, "event")
    sched.block(lambda: not t2.alive, ("stopped",))
    tasks._stop_event.set()
    sched.block(lambda: not tp.alive, ("join-pump",))
    sched.block(lambda: all(not t.alive for t in sched.threads[1:]), ("join-rest",))


def h_serial_write_vs_disconnect(sched):
    """H12: the pump writes a command to a serial-like link (reader-thread lock, two-step write) while the application
    thread calls disconnect(). Closing waits for the write in progress: the command reaches the port whole or not at
    all, and nothing escapes into the pump."""
    log = sched.log
    gw, transport, _ = make_gateway(log)
    link = SerialLikeConn(log, "s0")
    transport.protocol.transport = link
    tasks = gw.tasks
    tasks.add_job(str, CMD)

    def pump():
        try:
            reply = tasks.run_job()
            transport.send(reply)
        except Exception as exc:  # pylint: disable=broad-except
            log.append(("pump-raised", type(exc).__name__, str(exc)[:120], S._site(exc)))

    def app():
        try:
            transport.disconnect()
        except Exception as exc:  # pylint: disable=broad-except
            log.append(("event-raised", type(exc).__name__, str(exc)[:120], S._site(exc)))

    tp = sched.spawn(pump, "pump")
    t2 = sched.spawn(app, "event")
    sched.block(lambda: not tp.alive and not t2.alive, ("join",))
    sched.block(lambda: all(not t.alive for t in sched.threads[1:]), ("join-rest",), timeout=200.0)


def h_two_sends_first_fails(sched):
    """H7: the first write fails (send closes the link and asks for a reconnect); the reader thread then
    reports the loss without error; a second command follows. A command must never be written to a
    connection whose loss had already been processed when that send began."""
    log = sched.log
    gw, transport, conn = make_gateway(log)
    proto = transport.protocol
    conn.fail_writes = True

    def sender():
        for cmd in (CMD, "2;255;3;0;6;M\n"):
            log.append(("send-begin", cmd, [e[1] for e in log if e[0] == "lost-done"]))
            try:
                transport.send(cmd)
            except Exception as exc:  # pylint: disable=broad-except
                log.append(("send-raised", type(exc).__name__, str(exc)[:120], S._site(exc)))

    def reader():
        # what the reader thread does once the link it reads from has been closed
        sched.block(lambda: not conn.open, ("reader.wait-closed",))
        try:
            proto.connection_lost(None)
            log.append(("lost-done", conn.name))
        except Exception as exc:  # pylint: disable=broad-except
            log.append(("event-raised", type(exc).__name__, str(exc)[:120], S._site(exc)))

    t1 = sched.spawn(sender, "sender")
    t2 = sched.spawn(reader, "event")
    sched.block(lambda: not t1.alive and not t2.alive, ("join-all",))
    sched.block(lambda: all(not t.alive for t in sched.threads[1:]), ("join-rest",))


def h_tcp_write_vs_disconnect(sched, partial=False):
    """H8: the real TCPTransport (reader thread started by the real connect loop) on a fake socket whose
    sendall takes two steps; a user disconnect() from another thread must not cut a write in half.
    H9 (partial=True): no second actor; the send buffer of the non-blocking socket runs full in the middle of the
    second of three commands (sendall has handed over a prefix, then raises BlockingIOError)."""
    import socket as _socket
    import types

    import mysensors.gateway_tcp as gt

    from .c20t import Env, FakeSocket

    log = sched.log
    env = Env("tcp", [], [])
    env.log = log

    class Sock(FakeSocket):
        def sendall(self, data):
            sched.point(("sock.sendall-begin", self.idx))
            if self.closed:
                raise OSError("sendall on closed socket")
            log.append(("sendall-begin", self.idx, bytes(data)))
            if partial and bytes(data) == CMD2.encode() and not env.__dict__.get("buffer_was_full"):
                env.buffer_was_full = True
                log.append(("write-partial", f"s{self.idx}", bytes(data)[:6]))
                raise BlockingIOError(11, "Resource temporarily unavailable (harness: send buffer full)")
            sched.point(("sock.sendall-middle", self.idx))
            if self.closed:
                log.append(("sendall-cut-off", self.idx, bytes(data)[: len(data) // 2]))
                raise OSError("socket closed during sendall")
            log.append(("write", f"s{self.idx}", bytes(data)))

    socks = []

    def create_connection(address, timeout=None):
        sock = Sock(env, len(socks))
        socks.append(sock)
        return sock

    gt.socket = types.SimpleNamespace(create_connection=create_connection, timeout=_socket.timeout)
    gt.select = types.SimpleNamespace(select=env.select)
    gt.time = types.SimpleNamespace(sleep=S.coop_sleep, time=S.vtime)
    gw = gt.TCPGateway("198.51.100.9", reconnect_timeout=50.0, protocol_version="2.2")
    S.PUMP_TASKS[0] = gw.tasks
    transport = gw.tasks.transport
    transport.connect()
    sched.block(lambda: transport.protocol is not None and transport.protocol.transport is not None, ("wait-link",), timeout=5.0)

    def sender():
        try:
            for cmd in (CMD, CMD2, CMD3) if partial else (CMD,):
                transport.send(cmd)
        except Exception as exc:  # pylint: disable=broad-except
            log.append(("send-raised", type(exc).__name__, str(exc)[:120], S._site(exc)))

    def other():
        if partial:
            return
        try:
            transport.disconnect()
        except Exception as exc:  # pylint: disable=broad-except
            log.append(("event-raised", type(exc).__name__, str(exc)[:120], S._site(exc)))

    t1 = sched.spawn(sender, "sender")
    t2 = sched.spawn(other, "event")
    sched.block(lambda: not t1.alive and not t2.alive, ("join-all",))
    for sock in socks:
        sock.closed = True
    transport.protocol = None
    sched.block(lambda: all(not t.alive for t in sched.threads[1:]), ("join-rest",), timeout=200.0)


HARNESSES = {
    "H1-send-vs-lost-none": h_send_vs("lost-none"),
    "H2-send-vs-lost-error": h_send_vs("lost-error"),
    "H3-send-vs-disconnect": h_send_vs("disconnect"),
    "H4-send-vs-lost-then-made": h_send_vs("lost-then-made"),
    "H6-failing-send-vs-disconnect": h_send_vs("disconnect-write-fails"),
    "H5-producers-vs-pump": h_producers,
    "H7-two-sends-first-fails": h_two_sends_first_fails,
    "H8-tcp-write-vs-disconnect": h_tcp_write_vs_disconnect,
    "H9-tcp-send-buffer-full": lambda sched: h_tcp_write_vs_disconnect(sched, partial=True),
    "H10-pump-vs-lost-error": h_pump_vs_lost,
    "H11-pump-vs-stop": h_pump_vs_stop,
    "H12-serial-write-vs-disconnect": h_serial_write_vs_disconnect,
}


def run_one(hname, prefix):
    S.install_library_shims()
    body = HARNESSES[hname]
    sched = S.Scheduler(prefix, trace_files=TRACE_BY_HARNESS.get(hname, TRACE), horizon=3000)
    sched.run(lambda: body(sched))
    return sched


def judge(hname, sched):
    """Oracle over one complete execution. Returns [(clause, detail, message)]."""
    out = []
    log = sched.log
    for e in log:
        if e[0] in ("send-raised", "pump-raised"):
            out.append((e[0], f"{e[1]}@{e[3]}", f"{e[1]}: {e[2]} escaped at {e[3]}"))
        if e[0] == "thread-exception" and e[1] in ("sender", "pump"):
            out.append(("send-raised", f"{e[2]}@{e[4]}", f"{e[2]}: {e[3]}"))
    if sched.problem == "deadlock" and hname.startswith(("H8", "H9")) and not sched.threads[0].alive:
        # the harness body finished; what remains is a library connect thread waiting for a reader thread that
        # died because disconnect() raced with a reconnect - it cannot write any more (informational, see C20)
        pass
    elif sched.problem in ("deadlock", "horizon"):
        out.append((sched.problem, "", f"execution ended in {sched.problem}: {short(log[-3:])}"))
    writes = [e for e in log if e[0] == "write"]
    for e in log:
        if e[0] == "sendall-cut-off":
            out.append(("write-cut-in-half", "", f"the connection was closed in the middle of a write: only {e[2]!r} reached the peer"))
    if hname.startswith("H7"):
        # a command written to (attempted on) connection X although X's loss had been processed before the send began
        begun = None
        for e in log:
            if e[0] == "send-begin":
                begun = e
            if e[0] == "write-on-closed" and begun is not None and e[1] in begun[2] and e[2] == begun[1].encode():
                out.append(("write-to-connection-already-reported-lost", "", f"{begun[1]!r} was written to {e[1]} although the loss of {e[1]} had been processed before that send began"))
        return out
    if hname.startswith("H9"):
        # what the peer sees per connection: complete commands, each at most once overall, in order; the prefix of
        # a command whose send failed may only be the last thing on a connection
        partial_on = None
        seen = []
        for e in log:
            if e[0] == "write-partial":
                partial_on = e[1]
            if e[0] == "write":
                if partial_on is not None and e[1] == partial_on:
                    out.append(("bytes-after-failed-partial-write", "", f"{e[2]!r} written to {e[1]} after only a prefix of the previous command had gone out on it: the peer reads a garbled line"))
                seen.append(e[2])
        if len(seen) != len(set(seen)):
            out.append(("command-written-twice", "", f"commands written: {seen}"))
        order = [c.encode() for c in (CMD, CMD2, CMD3)]
        if [c for c in order if c in seen] != seen:
            out.append(("partial-or-foreign-write", "", f"commands written: {seen}"))
        return out
    if hname.startswith("H8"):
        mine = [e for e in writes if e[2] == CMD.encode()]
        if len(mine) > 1:
            out.append(("command-written-twice", "", f"command written {len(mine)} times"))
        return out
    if hname.startswith("H5"):
        queued = [e[1] for e in log if e[0] == "queued"]
        sent = [e[2].decode() for e in writes]
        if not any(x[0] in ("pump-raised",) for x in out) and sched.problem is None:
            if sorted(sent) != sorted(queued):
                dup = len(sent) != len(set(sent))
                out.append(("queued-commands-not-sent-exactly-once", "duplicate" if dup else "lost", f"queued {queued}, written {sent}"))
            elif sent != queued:
                out.append(("queue-order", "", f"queued {queued}, written {sent}"))
    else:
        mine = [e for e in writes if e[2] == CMD.encode()]
        if len(mine) > 1:
            out.append(("command-written-twice", "", f"command written {len(mine)} times: {mine}"))
        for e in writes:
            if e[2] not in ((CMD.encode(), CMD2.encode()) if hname.startswith(("H10", "H11")) else (CMD.encode(),)):
                out.append(("partial-or-foreign-write", "", f"unexpected write {e}"))
        if hname.startswith(("H10", "H11")):
            two = [e for e in writes if e[2] == CMD2.encode()]
            if len(two) > 1:
                out.append(("command-written-twice", "", f"command written {len(two)} times: {two}"))
            if mine and two and log.index(two[0]) < log.index(mine[0]):
                out.append(("queue-order", "", "second queued command written before the first"))
    return out


def outcome(hname, sched):
    """Observable outcome of an execution (to make vacuity visible)."""
    log = sched.log
    if hname.startswith("H5"):
        return tuple((e[0], e[1] if e[0] == "queued" else e[2]) for e in log if e[0] in ("queued", "write"))
    return tuple(e[0] if e[0] != "write" else ("write", e[1]) for e in log if e[0] in ("write", "write-on-closed", "write-fails", "close", "connected", "on_conn_lost", "send-raised", "pump-raised", "event-raised", "thread-exception", "sendall-begin", "sendall-cut-off", "lost-done"))


def _new_acc():
    return {"executions": 0, "points": 0, "distinct": set(), "maxp": 0, "problems": collections.Counter(), "found": {}, "outcomes": collections.Counter(), "info": collections.Counter()}


def _explore_part(args):
    """Worker: explore the sub-trees below the given prefixes with the given preemption bound."""
    hname, bound, roots, deadline, expand_limit = args
    acc = _new_acc()
    res = S.Result()

    def check(sched):
        acc["outcomes"][outcome(hname, sched)] += 1
        for e in sched.log:
            if e[0] == "event-raised" or (e[0] == "thread-exception" and e[1] not in ("sender", "pump")):
                acc["info"][f"other-thread-exception:{e[1] if e[0]=='event-raised' else e[2]}"] += 1
        for clause, detail, msg in judge(hname, sched):
            sig = f"{hname}|{clause}" + (f"|{detail}" if detail else "")
            npre = S.preemptions(sched.points, len(sched.points))
            if sig not in acc["found"] or npre < acc["found"][sig][2]:
                acc["found"][sig] = (msg, list(sched.choices), npre)

    complete, leftover = S.explore(lambda prefix: run_one(hname, prefix), check, bound, res, deadline=deadline, roots=roots, expand_limit=expand_limit)
    acc["executions"] = res.executions
    acc["points"] = res.points
    acc["distinct"] = res.distinct_points
    acc["maxp"] = res.max_points
    acc["problems"].update(res.problems)
    return hname, bound, complete, leftover, acc


def _merge(dst, src):
    dst["executions"] += src["executions"]
    dst["points"] += src["points"]
    dst["distinct"] |= src["distinct"]
    dst["maxp"] = max(dst["maxp"], src["maxp"])
    dst["problems"].update(src["problems"])
    dst["outcomes"].update(src["outcomes"])
    dst["info"].update(src["info"])
    for sig, val in src["found"].items():
        if sig not in dst["found"] or val[2] < dst["found"][sig][2]:
            dst["found"][sig] = val


BOUNDS = {"quick": {"default": 2, "H5-producers-vs-pump": 1, "H8-tcp-write-vs-disconnect": 2, "H9-tcp-send-buffer-full": 1, "H10-pump-vs-lost-error": 1, "H11-pump-vs-stop": 1, "H12-serial-write-vs-disconnect": 2}, "thorough": {"default": 3, "H5-producers-vs-pump": 2, "H8-tcp-write-vs-disconnect": 3, "H9-tcp-send-buffer-full": 2, "H10-pump-vs-lost-error": 2, "H11-pump-vs-stop": 2, "H12-serial-write-vs-disconnect": 2}}


def run(tier):
    report = Report(PROP, "model_checking", tier)
    budget = 400 if tier == "quick" else 2400
    deadline = time.time() + budget
    ctx = multiprocessing.get_context("fork")
    per = {}
    caps = []
    samples = []
    accs = {h: _new_acc() for h in HARNESSES}
    completed = {h: None for h in HARNESSES}
    with ctx.Pool(NPROC) as pool:
        maxb = max(BOUNDS[tier].values())
        for b in range(0, maxb + 1):
            # split every harness tree: expand a little in one worker, then farm out the leftover prefixes
            seeds = [(h, b, None, deadline, 40) for h in HARNESSES if BOUNDS[tier].get(h, BOUNDS[tier]["default"]) >= b]
            parts = []
            status = {}
            for hname, bound, complete, leftover, acc in pool.imap(_explore_part, seeds):
                _merge(accs[hname], acc)
                status[hname] = complete
                chunks = [leftover[i::NPROC * 2] for i in range(NPROC * 2)]
                parts += [(hname, b, ch, deadline, None) for ch in chunks if ch]
            for hname, bound, complete, leftover, acc in pool.imap_unordered(_explore_part, parts):
                _merge(accs[hname], acc)
                status[hname] = status[hname] and complete
            for hname, ok in status.items():
                if ok:
                    completed[hname] = b
    total_exec = total_points = total_distinct = 0
    for hname, acc in accs.items():
        want = BOUNDS[tier].get(hname, BOUNDS[tier]["default"])
        per[hname] = {"preemption_bound_completed": completed[hname], "preemption_bound_target": want, "executions": acc["executions"], "scheduling_points": acc["points"], "distinct_points": len(acc["distinct"]), "max_points_per_execution": acc["maxp"], "distinct_outcomes": len(acc["outcomes"]), "problems": dict(acc["problems"]), "informational": dict(acc["info"])}
        total_exec += acc["executions"]
        total_points += acc["points"]
        total_distinct += len(acc["distinct"])
        if completed[hname] != want:
            caps.append(f"{hname}: completed bound {completed[hname]} of {want}")
        samples.append({"harness": hname, "outcomes": [list(map(str, k)) for k in list(acc["outcomes"])[:3]]})
        for sig, (msg, choices, npre) in acc["found"].items():
            report.add(Violation(PROP, sig, f"{msg} (schedule with {npre} preemption(s))", {"kind": "schedule", "check": PROP, "harness": hname, "choices": choices}))
    # replay every failing schedule twice: identical observations required
    for v in list(report.violations.values()):
        h, ch = v.replay["harness"], v.replay["choices"]
        a = run_one(h, ch)
        b = run_one(h, ch)
        if a.log != b.log or a.problem == "divergence":
            raise HarnessError(f"schedule for {v.signature} is not reproducible")
        if not any(f"{h}|{c}" + (f"|{d}" if d else "") == v.signature for c, d, _ in judge(h, a)):
            raise HarnessError(f"schedule for {v.signature} did not reproduce the violation")
    cov = report.coverage
    cov["states"] = total_distinct
    cov["transitions"] = total_points
    cov["traces_validated_against_impl"] = total_exec
    cov["evaluations"] = total_exec
    cov["distinct_nontrivial"] = sum(p["distinct_outcomes"] for p in per.values())
    cov["rule"] = (
        "states = distinct scheduling points visited (thread, source line or primitive); transitions = scheduling decisions "
        "executed; evaluations = complete schedules run on the real SyncTransport/SyncTasks code; every schedule with at most "
        "the stated number of preemptions (iteratively 0,1,2(,3)) is enumerated per harness; distinct_nontrivial = distinct "
        "observable outcomes (write/close/callback logs)"
    )
    cov["harnesses"] = per
    cov["caps_hit"] = caps
    cov["exhaustive"] = not caps
    cov["samples"] = samples
    report.assumptions = [
        "scheduling points: every source line of mysensors/transport.py and mysensors/task.py (sys.settrace), lock acquire/release, event set/wait, thread start/join, fake connection write/close",
        "fake connection objects: write raises OSError when closed, as a closed serial port or socket does",
        "a switch inside a single source line is not explored (line granularity)",
    ]
    return report.finish()


def replay(data):
    rep = data["replay"]
    sched = run_one(rep["harness"], list(rep["choices"]))
    sigs = sorted(f"{rep['harness']}|{c}" + (f"|{d}" if d else "") for c, d, _ in judge(rep["harness"], sched))
    print(f"schedule of {len(sched.points)} points replayed; log tail: {short(sched.log[-6:], 500)}")
    print(f"violations: {sigs}")
    if data["signature"] in sigs:
        print(f"VIOLATION property={PROP} replay=<replayed>")
        return 1
    print("did not reproduce on the current tree")
    return 0
