"""C04 - network state mirrors what the nodes reported; callbacks are exact (E1, model_checking)."""
from .. import alpha, e1check, explore
from ..monitors import GatewayMonitor

PROP = "C04"
NAMES = [
    "PA", "PAo", "PB", "IDR", "CA0", "CA0x", "CA1", "CB0", "SA0", "SA0z", "SA1", "SB0", "SU", "RA0",
    "BAT", "SKN", "SKV", "HBA", "PSA", "GWR", "CFG", "LOG", "BAD", "CU0",
]


class C04Spec(explore.Spec):
    tier = "thorough"
    prop = PROP

    def alphabet_extra(self, cfg):
        return [("tick",)] if cfg.get("persistence") else []

    def configs(self, tier):
        out = []
        for v in ("1.4", "1.5", "2.0", "2.1", "2.2"):
            for cb in ("record", "raise"):
                out.append({"version": v, "cb": cb})
        # one configuration with persistence: a callback that raises must not keep the state from being marked unsaved
        out.append({"version": "2.2", "cb": "raise", "persistence": "json", "depth": 3})
        if tier == "thorough":
            out += [{"version": "2.2", "cb": "record", "flavour": "async"}, {"version": "1.4", "cb": "raise", "flavour": "async"}]
        return out

    def alphabet(self, cfg):
        v = cfg["version"]
        evs = []
        for ev in alpha.events(v, NAMES) + [alpha.rx(alpha.invalid_for(v)), ("set", 1, 0, 2, "0"), alpha.rx("1;255;0;0;6;abc"), alpha.rx("1;255;3;0;0;100"), ("fw", 1, 1, 1, "F1"), alpha.rx(f"253;255;0;0;17;{v}"), alpha.rx(f"0;255;0;0;18;{v}"), alpha.rx(alpha.lines(v)["FCA"]), alpha.rx(alpha.lines(v)["FRA0"])]:
            if ev not in evs:
                evs.append(ev)
        t = alpha.lines(v)
        # internal lines that name a child other than 255 are invalid: they must leave the tree alone
        evs += [alpha.rx("1;0;3;0;0;15"), alpha.rx("1;7;3;0;11;Bogus")]
        # CR LF framed input and trailing blanks: the line terminator and trailing whitespace are not part of the payload
        evs += [alpha.rx("1;255;3;0;11;sk\r"), alpha.rx("1;0;1;0;2;1 \t")]
        # text outside ASCII arrives as UTF-8 bytes and is mirrored exactly (sketch name, child description)
        evs += [alpha.rx("1;255;3;0;11;K\u00fchl\u00b0")]
        if cfg.get("flavour") != "async":
            # a burst: two lines queued before the poll thread runs - they take effect in arrival order
            evs += [("rx2", t["SA0"], t["SA0z"]), ("rx2", t["PA"], t["CA0"]), ("rx2", t["SA0z"], t["SA0"])]
        return evs + self.alphabet_extra(cfg)

    def roots(self, cfg):
        t = alpha.lines(cfg["version"])
        roots = [()]
        if "WA" in t and not cfg.get("persistence"):
            # a sleeping node with one child and one reported value
            roots.append(tuple(alpha.rx(t[n]) for n in ("PA", "CA0", "SA0", "WA")))
        return roots

    def new_monitor(self, cfg):
        clauses = {"tree", "callbacks", "exc", "ids"}
        if cfg.get("persistence"):
            clauses.add("dirty")
        return GatewayMonitor(PROP, cfg["version"], clauses)


RULE = (
    "transition = one event executed on a real gateway from a distinct canonical state; after every transition the "
    "type-strict projection of gateway.sensors is compared with the reference model and the callback log (count, "
    "fields, state seen from inside the callback) with the model's prescription; both a recording and a raising "
    "event callback are explored; distinct = canonical state key"
)
ASSUMPTIONS = [
    "serial-like sync world: real SerialGateway with a fake connection; pump = real _poll_queue body run to idle after every event",
    "callback count is UNSPEC (0 or 1 accepted) for gateway-ready, id request, pre-sleep notification, log message, stream requests",
    "node presentation payloads that are neither dotted-numeric versions nor digit-free text are kept out of the alphabet",
]


def run(tier):
    spec = C04Spec()
    spec.tier = tier
    if tier == "quick":
        return e1check.run_e1(spec, tier, depth=4, state_budget=600000, time_budget=600, rule=RULE, assumptions=ASSUMPTIONS)
    return e1check.run_e1(spec, tier, depth=5, state_budget=3000000, time_budget=1500, rule=RULE, assumptions=ASSUMPTIONS)


def replay(data):
    return e1check.replay_history(C04Spec(), data)
