"""C18 - documented configuration is accepted and honoured (E5, exhaustive over the stated grid)."""
import collections
import itertools
import json
import logging
import os
import pickle
import shutil
import types

from .. import e5
from ..common import Report, Violation, scratch_root, short
from ..ref_codec import parse_version, version_floor

PROP = "C18"

SERIAL_OPTS = ["event_callback", "persistence", "persistence_file", "protocol_version", "baud", "timeout", "reconnect_timeout"]
TCP_OPTS = ["event_callback", "persistence", "persistence_file", "protocol_version", "port", "timeout", "reconnect_timeout"]
MQTT_OPTS = ["in_prefix", "out_prefix", "retain", "event_callback", "persistence", "persistence_file", "protocol_version"]
VALUE_SETS = [
    {"baud": 57600, "timeout": 2.5, "reconnect_timeout": 7.0, "port": 5004, "protocol_version": "2.2", "in_prefix": "mys-in", "out_prefix": "mys-out", "retain": False, "fmt": "json"},
    {"baud": 9600, "timeout": 0.5, "reconnect_timeout": 33.0, "port": 1883, "protocol_version": "1.5", "in_prefix": "a/b", "out_prefix": "", "retain": True, "fmt": "pickle"},
]
VALUE_SETS.append({"baud": 115200, "timeout": 0, "reconnect_timeout": 0.0, "port": 5003, "protocol_version": "2.0", "in_prefix": "x", "out_prefix": "y", "retain": False, "fmt": "json"})
CLASSES = ["SerialGateway", "AsyncSerialGateway", "TCPGateway", "AsyncTCPGateway", "MQTTGateway", "AsyncMQTTGateway"]


def workdir():
    d = os.path.join(scratch_root(), f"verif-pymys-{os.getpid()}", "c18")
    shutil.rmtree(d, ignore_errors=True)
    os.makedirs(d)
    return d


def discriminating(version_name):
    """Frames whose acceptance tells the five supported versions apart (besides the module name)."""
    return {
        "rgb": "1;0;1;0;40;ff0000",  # >= 1.5
        "heartbeat": "1;255;3;0;22;7",  # >= 2.0
        "presleep": "1;255;3;0;32;7",  # >= 2.2
    }


def accepted(gw, line):
    import voluptuous as vol
    from mysensors.message import Message

    try:
        Message(line).validate(gw.protocol_version)
        return True
    except vol.Invalid:
        return False


def probe_options(case):
    """Construct one gateway class with one subset of options; probe every option's effect."""
    cls_name, subset, vs_idx = case
    import mysensors.gateway_serial as gs
    import mysensors.gateway_tcp as gt
    from mysensors.gateway_mqtt import AsyncMQTTGateway, MQTTGateway

    vals = VALUE_SETS[vs_idx]
    d = workdir()
    events = []
    pubs = []
    subs = []

    def subscribe(topic, callback, qos):
        if qos not in (0, 1, 2):
            raise ValueError("Invalid QoS level.")  # what an MQTT client library does
        subs.append((topic, qos))

    kwargs = {}
    pfile = os.path.join(d, f"net.{vals['fmt']}")
    for opt in subset:
        if opt == "event_callback":
            kwargs[opt] = events.append
        elif opt == "persistence":
            kwargs[opt] = True
        elif opt == "persistence_file":
            kwargs[opt] = pfile
        else:
            kwargs[opt] = vals[opt]
    rep = {"kind": "input", "check": PROP, "case": ["options", cls_name, sorted(subset), vs_idx]}
    viols = []
    klass = {"SerialGateway": gs.SerialGateway, "AsyncSerialGateway": gs.AsyncSerialGateway, "TCPGateway": gt.TCPGateway, "AsyncTCPGateway": gt.AsyncTCPGateway, "MQTTGateway": MQTTGateway, "AsyncMQTTGateway": AsyncMQTTGateway}[cls_name]
    cwd = os.getcwd()
    os.chdir(d)  # default persistence file name is relative
    try:
        try:
            if "MQTT" in cls_name:
                gw = klass(lambda *a: pubs.append(a), subscribe, **kwargs)
            elif "Serial" in cls_name:
                gw = klass("/dev/ttyVERIF", **kwargs)
            else:
                gw = klass("198.51.100.7", **kwargs)
        except Exception as exc:  # pylint: disable=broad-except
            offending = sorted(set(subset) & {"timeout", "reconnect_timeout"}) or sorted(subset)
            return [Violation(PROP, f"constructor-raises|{cls_name}|{type(exc).__name__}|{'+'.join(offending) if set(subset) & {'timeout', 'reconnect_timeout'} else 'other'}", f"{cls_name}({', '.join(f'{k}=...' for k in sorted(subset))}) raised {type(exc).__name__}: {short(str(exc))}", rep)]

        def bad(opt, msg):
            viols.append(Violation(PROP, f"option-ignored|{cls_name}|{opt}", f"{cls_name} with {sorted(subset)}: {msg}", rep))

        tr = gw.tasks.transport
        # protocol version
        want_v = vals["protocol_version"] if "protocol_version" in subset else "1.4"
        if gw.const.__name__ != "mysensors.const_" + want_v.replace(".", ""):
            bad("protocol_version", f"tables are {gw.const.__name__}, expected version {want_v}")
        if accepted(gw, "1;0;1;0;40;ff0000") != (want_v >= "1.5"):
            bad("protocol_version", "V_RGB acceptance does not match the configured version")
        # event callback
        gw.logic("1;255;0;0;17;" + want_v)
        if ("event_callback" in subset) != (len(events) == 1):
            bad("event_callback", f"callback fired {len(events)} times on a node presentation")
        # persistence
        want_p = "persistence" in subset
        if bool(gw.tasks.persistence) != want_p:
            bad("persistence", f"persistence object is {gw.tasks.persistence!r}")
        if want_p:
            want_file = pfile if "persistence_file" in subset else "mysensors.pickle"
            if gw.tasks.persistence.persistence_file != want_file:
                bad("persistence_file", f"file is {gw.tasks.persistence.persistence_file!r}")
            gw.tasks.persistence.save_sensors()
            path = want_file if os.path.isabs(want_file) else os.path.join(d, want_file)
            if not os.path.isfile(path):
                bad("persistence_file", f"saving did not create {want_file!r}")
            else:
                try:
                    with open(path, "rb") as fh:
                        data = fh.read()
                    if path.endswith(".json"):
                        json.loads(data.decode("utf-8"))
                    else:
                        pickle.loads(data)
                except Exception as exc:  # pylint: disable=broad-except
                    bad("persistence_file", f"file is not in the format its extension names: {type(exc).__name__}")
                # persistence keeps working after the first save: a later update reaches the file too
                gw.logic("1;255;3;0;0;55")
                gw.tasks.persistence.save_sensors()
                with open(path, "rb") as fh:
                    data2 = fh.read()
                if data2 == data:
                    bad("persistence", "an update after the first save is not written by the next save")
        # transport options
        if "MQTT" in cls_name:
            want_in = vals["in_prefix"] if "in_prefix" in subset else ""
            want_out = vals["out_prefix"] if "out_prefix" in subset else ""
            want_ret = vals["retain"] if "retain" in subset else True
            tr.send("1;0;1;0;2;1\n")
            if not pubs or pubs[-1][0] != f"{want_out}/1/0/1/0/2":
                bad("out_prefix", f"published to {pubs[-1][0] if pubs else None!r}")
            if pubs and pubs[-1][3] is not want_ret:
                bad("retain", f"retain flag published as {pubs[-1][3]!r}")
            before = len(gw.tasks.queue) if hasattr(gw.tasks.queue, "__len__") else 0
            gw.sensors.clear()
            tr.recv(f"{want_in}/1/255/0/0/17", "2.2", 0)
            if "Async" not in cls_name:
                if len(gw.tasks.queue) != before + 1:
                    bad("in_prefix", "a topic on the configured inbound prefix was not accepted")
                gw.tasks.queue.clear()
            elif 1 not in gw.sensors:
                bad("in_prefix", "a topic on the configured inbound prefix was not accepted")
            # the inbound prefix also governs what is subscribed: initial topics, and the topics of a presented child
            del subs[:]
            gw.init_topics()
            got = {t for t, _ in subs}
            need = {f"{want_in}/+/+/0/+/+", f"{want_in}/+/+/3/+/+"}
            if not need <= got:
                bad("in_prefix", f"initial subscription on the configured prefix is incomplete: missing {sorted(need - got)} (subscribed {sorted(got)})")
            del subs[:]
            gw.sensors.clear()
            gw.logic("3;255;0;0;17;2.2")
            gw.logic("3;4;0;0;3;")
            got = {t for t, _ in subs}
            need = {f"{want_in}/3/4/1/+/+", f"{want_in}/3/4/2/+/+", f"{want_in}/3/+/4/+/+"}
            if not need <= got:
                bad("in_prefix", f"subscription for a presented child on the configured prefix is incomplete: missing {sorted(need - got)} (subscribed {sorted(got)})")
        else:
            want_to = vals["timeout"] if "timeout" in subset else 1.0
            want_rt = vals["reconnect_timeout"] if "reconnect_timeout" in subset else 10.0
            if tr.timeout != want_to:
                bad("timeout", f"transport.timeout is {tr.timeout!r}, expected {want_to!r}")
            if tr.reconnect_timeout != want_rt:
                bad("reconnect_timeout", f"transport.reconnect_timeout is {tr.reconnect_timeout!r}, expected {want_rt!r}")
            if "Serial" in cls_name:
                want_baud = vals["baud"] if "baud" in subset else 115200
                if gw.baud != want_baud or gw.port != "/dev/ttyVERIF":
                    bad("baud", f"port/baud are {gw.port!r}/{gw.baud!r}")
            else:
                want_port = vals["port"] if "port" in subset else 5003
                if gw.server_address != ("198.51.100.7", want_port):
                    bad("port", f"server address is {gw.server_address!r}")
            if "Async" not in cls_name:
                viols.extend(probe_connect_loop(cls_name, gw, tr, want_to, want_rt, rep, subset))
    finally:
        os.chdir(cwd)
        shutil.rmtree(d, ignore_errors=True)
    return viols


def probe_connect_loop(cls_name, gw, tr, want_to, want_rt, rep, subset):
    """Run the real connect loop once against a refusing fake device: arguments and retry sleep."""
    import mysensors.gateway_serial as gs
    import mysensors.gateway_tcp as gt

    viols = []
    calls = []
    sleeps = []
    saved_proto = [tr.protocol]

    def sleep(seconds):
        sleeps.append(seconds)
        tr.protocol = None  # ends the loop after the first retry sleep

    if "Serial" in cls_name:
        import serial

        def serial_for_url(*args, **kwargs):
            calls.append((args, kwargs))
            raise serial.SerialException("refused (harness)")

        saved = (gs.serial, gs.time)
        gs.serial = types.SimpleNamespace(serial_for_url=serial_for_url, SerialException=serial.SerialException, threaded=serial.threaded)
        gs.time = types.SimpleNamespace(sleep=sleep)
        try:
            gs.sync_connect(tr)
        finally:
            gs.serial, gs.time = saved
        want_baud = gw.baud
        if not calls or calls[0][0][:2] != (gw.port, want_baud) or calls[0][1].get("timeout") != want_to:
            viols.append(Violation(PROP, f"option-ignored|{cls_name}|timeout", f"{cls_name} with {sorted(subset)}: serial_for_url called with {calls[:1]}", rep))
    else:
        def create_connection(address, timeout=None):
            calls.append((address, timeout))
            raise ConnectionRefusedError("refused (harness)")

        saved = (gt.socket, gt.time)
        import socket as _socket

        gt.socket = types.SimpleNamespace(create_connection=create_connection, timeout=_socket.timeout)
        gt.time = types.SimpleNamespace(sleep=sleep, time=lambda: 0.0)
        try:
            gt.sync_connect(tr)
        finally:
            gt.socket, gt.time = saved
        if not calls or calls[0] != (gw.server_address, want_rt):
            viols.append(Violation(PROP, f"option-ignored|{cls_name}|reconnect_timeout", f"{cls_name} with {sorted(subset)}: create_connection called with {calls[:1]}", rep))
        # the same loop when the connect attempt times out instead of being refused
        proto = tr.protocol or saved_proto[0]
        tr.protocol = proto
        first = list(sleeps)
        del sleeps[:]

        def create_connection_timeout(address, timeout=None):
            calls.append((address, timeout))
            raise _socket.timeout("timed out (harness)")

        saved = (gt.socket, gt.time)
        gt.socket = types.SimpleNamespace(create_connection=create_connection_timeout, timeout=_socket.timeout)
        gt.time = types.SimpleNamespace(sleep=sleep, time=lambda: 0.0)
        try:
            gt.sync_connect(tr)
        finally:
            gt.socket, gt.time = saved
        if sleeps != [want_rt]:
            viols.append(Violation(PROP, f"option-ignored|{cls_name}|reconnect_timeout", f"{cls_name} with {sorted(subset)}: after a connect attempt that timed out the retry sleeps {sleeps}, expected [{want_rt}]", rep))
        del sleeps[:]
        sleeps.extend(first)
    if sleeps != [want_rt]:
        viols.append(Violation(PROP, f"option-ignored|{cls_name}|reconnect_timeout", f"{cls_name} with {sorted(subset)}: retry sleeps {sleeps}, expected [{want_rt}]", rep))
    return viols


def check_options(chunk):
    logging.disable(logging.CRITICAL)
    viols, stats, samples = [], collections.Counter(), []
    for case in chunk:
        stats["option_subsets"] += 1
        try:
            viols.extend(probe_options(case))
        except Exception as exc:  # pylint: disable=broad-except
            viols.append(Violation(PROP, f"probe-raises|{case[0]}|{type(exc).__name__}", f"{case}: {type(exc).__name__}: {short(str(exc))}", {"kind": "input", "check": PROP, "case": ["options", case[0], sorted(case[1]), case[2]]}))
        if not samples:
            samples.append(["options", case[0], sorted(case[1]), case[2]])
    return viols, stats, samples


def readme_examples():
    """The README's keyword examples, verbatim (positional use of the callback is outside the quantifier)."""
    import mysensors.mysensors as mysensors

    def event(message):
        return None

    d = workdir()
    out = []
    rep = {"kind": "input", "check": PROP, "case": ["readme"]}
    try:
        try:
            mysensors.SerialGateway(
                "/dev/ttyACM0", baud=115200, timeout=1.0, reconnect_timeout=10.0, event_callback=event, persistence=True,
                persistence_file=os.path.join(d, "mysensors.pickle"), protocol_version="2.2",
            )
        except Exception as exc:  # pylint: disable=broad-except
            out.append(Violation(PROP, f"readme-example-raises|SerialGateway|{type(exc).__name__}", f"README serial example raised {type(exc).__name__}: {exc}", rep))
        try:
            mysensors.TCPGateway(
                "127.0.0.1", port=5003, timeout=1.0, reconnect_timeout=10.0, event_callback=event, persistence=True,
                persistence_file=os.path.join(d, "mysensors.pickle"), protocol_version="1.4",
            )
        except Exception as exc:  # pylint: disable=broad-except
            out.append(Violation(PROP, f"readme-example-raises|TCPGateway|{type(exc).__name__}", f"README TCP example raised {type(exc).__name__}: {exc}", rep))
    finally:
        shutil.rmtree(d, ignore_errors=True)
    return out


def version_strings():
    out = []
    for major in range(0, 4):
        for minor in range(0, 13):
            out.append(f"{major}.{minor}")
            for patch in range(0, 4):
                out.append(f"{major}.{minor}.{patch}")
    return out


ODD = ["abc", "", "2.x", "x.2", "1,5", None, 2.1, 1.5, "v", "2.2.2.2"]


# a bare major number: which version it means is UNSPEC (major.0 or the 1.4 fallback), but it is a value a caller or a
# node can supply, so neither the constructor nor the node's version handling may raise on it
BARE = ["2", 2, "3", 3, "1", 0, "0"]


def check_bare(v, viols, stats):
    from mysensors import Gateway
    from mysensors.const import get_const
    from mysensors.sensor import Sensor

    stats["bare_major_values"] += 1
    rep = {"kind": "input", "check": PROP, "case": ["version", "bare", v if isinstance(v, str) else f"int:{v}"]}
    allowed = {"1.4", version_floor(f"{v}.0")}
    try:
        gw = Gateway(protocol_version=v)
        got = gw.const.__name__.rsplit("_", 1)[1]
        if f"{got[0]}.{got[1]}" not in allowed:
            viols.append(Violation(PROP, f"gateway-version-floor|bare-major|got-{got[0]}.{got[1]}", f"protocol_version={v!r} selects {got}", rep))
    except Exception as exc:  # pylint: disable=broad-except
        viols.append(Violation(PROP, f"version-raises|{type(exc).__name__}", f"Gateway(protocol_version={v!r}) raised {type(exc).__name__}: {exc}", rep))
    try:
        node = Sensor(1)
        node.protocol_version = v
        get_const(node.protocol_version)
        try:
            node.validate_child_state(0, 2, "1")
        except ValueError:
            pass
    except Exception as exc:  # pylint: disable=broad-except
        if type(exc).__module__.startswith("voluptuous"):
            return
        viols.append(Violation(PROP, f"node-version-raises|{type(exc).__name__}", f"a node presenting version {v!r}: {type(exc).__name__}: {exc}", rep))


def check_versions(chunk):
    """One process per construction order: the const-module cache is a lazily built global."""
    logging.disable(logging.CRITICAL)
    viols, stats, samples = [], collections.Counter(), []
    import mysensors.const
    from mysensors import Gateway
    from mysensors.sensor import Sensor

    for order, versions in chunk:
        mysensors.const.LOADED_CONST.clear()
        for v in versions:
            if order == "bare":
                check_bare(v, viols, stats)
                continue
            stats["version_strings"] += 1
            text = v if isinstance(v, str) else (repr(v) if v is not None else None)
            want = version_floor(text) if isinstance(text, str) else "1.4"
            rep = {"kind": "input", "check": PROP, "case": ["version", order, v if isinstance(v, (str, type(None))) else repr(v)]}
            try:
                gw = Gateway(protocol_version=v)
            except Exception as exc:  # pylint: disable=broad-except
                viols.append(Violation(PROP, f"version-raises|{type(exc).__name__}", f"Gateway(protocol_version={v!r}) raised {type(exc).__name__}: {exc}", rep))
                continue
            got = gw.const.__name__.rsplit("_", 1)[1]
            got = f"{got[0]}.{got[1]}"
            shape = "major.minor.patch" if isinstance(v, str) and v.count(".") == 2 else ("major.minor" if isinstance(v, str) and v.count(".") == 1 else "other")
            if got != want:
                viols.append(Violation(PROP, f"gateway-version-floor|{shape}|want-{want}|got-{got}", f"protocol_version={v!r} selects {got}, numeric floor is {want}", rep))
                continue
            disc = {"rgb": want >= "1.5", "heartbeat": want >= "2.0", "presleep": want >= "2.2"}
            # behaviour, not only tables: traffic of an unknown node triggers a presentation request from 2.0 on
            from mysensors.gateway_serial import SerialGateway

            sgw = SerialGateway("/dev/verif", protocol_version=v)
            sgw.logic("9;0;1;0;2;1")
            asked = [func() for func, args in sgw.tasks.queue if not args]
            if (asked == ["9;255;3;0;19;\n"]) != (want >= "2.0"):
                viols.append(Violation(PROP, f"gateway-version-behaviour|presentation-request|{shape}", f"protocol_version={v!r} (means {want}): presentation request for an unknown node: {asked}", rep))
            for name, line in discriminating(want).items():
                if accepted(gw, line) != disc[name]:
                    viols.append(Violation(PROP, f"gateway-version-frames|{name}", f"protocol_version={v!r}: frame {line!r} acceptance is {accepted(gw, line)}", rep))
            # the same rule for the version a node presents
            node = Sensor(1)
            node.protocol_version = v
            from mysensors.const import get_const

            ngot = get_const(node.protocol_version).__name__.rsplit("_", 1)[1]
            ngot = f"{ngot[0]}.{ngot[1]}"
            if ngot != want:
                viols.append(Violation(PROP, f"node-version-floor|{shape}|want-{want}|got-{ngot}", f"node presenting version {v!r} is treated as {ngot}, numeric floor is {want}", rep))
            else:
                import voluptuous as vol

                try:
                    node.validate_child_state(0, 40, "ff0000")
                    ok = True
                except (vol.Invalid, ValueError):
                    ok = False
                if ok != (want >= "1.5"):
                    viols.append(Violation(PROP, "node-version-frames|rgb", f"node version {v!r}: V_RGB desired value acceptance is {ok}", rep))
        if not samples:
            samples.append(["versions", order, [str(x) for x in versions[:5]]])
    return viols, stats, samples


def run(tier):
    logging.disable(logging.CRITICAL)
    report = Report(PROP, "exploration", tier)
    cases = []
    for cls_name in CLASSES:
        opts = MQTT_OPTS if "MQTT" in cls_name else (SERIAL_OPTS if "Serial" in cls_name else TCP_OPTS)
        for r in range(len(opts) + 1):
            for subset in itertools.combinations(opts, r):
                for vs in range(len(VALUE_SETS)):
                    cases.append((cls_name, subset, vs))
    v1, s1, m1 = e5.pmap(check_options, cases)
    v1 += readme_examples()
    vs = version_strings()
    orders = [("ascending", vs + ODD), ("descending", list(reversed(vs)) + ODD), ("odd-first", ODD + vs[::7]), ("bare", BARE)]
    v2, s2, m2 = e5.pmap(check_versions, orders, parts=4)
    report.add_all(v1 + v2)
    stats = s1 + s2
    cov = report.coverage
    cov["evaluations"] = stats["option_subsets"] + stats["version_strings"] + stats["bare_major_values"] + 2
    cov["distinct_nontrivial"] = len(cases) + len(vs) + len(ODD)
    cov["rule"] = (
        "(a) six gateway classes x all 2^7 subsets of their documented keyword options x two value sets, each constructed and "
        "probed behaviourally (callback fires, persistence file written in the named format, version tables, transport.timeout/"
        "reconnect_timeout, arguments reaching serial_for_url / create_connection and the retry sleep of the real connect loop, "
        "MQTT prefixes and retain), plus the README keyword examples verbatim; (b) every major.minor[.patch] with major 0..3, "
        "minor 0..12, patch absent or 0..3 plus odd values, as gateway version and as node version, in ascending, descending "
        "and odd-first construction order; oracle = numeric floor over the supported versions; bare major numbers (str and int) must be accepted without raising"
    )
    cov["exhaustive"] = True
    cov["counts"] = dict(stats)
    cov["samples"] = (m1 + m2)[:8]
    report.assumptions = ["positional use of the event callback is outside the quantifier (keyword options)", "effect of 'timeout' on the asyncio kinds is observed as transport.timeout only", "which version a bare major number (2, '2') selects is UNSPEC (major.0 or the 1.4 fallback are both accepted); it must not raise"]
    return report.finish()


def replay(data):
    case = data["replay"]["case"]
    logging.disable(logging.CRITICAL)
    if case[0] == "options":
        viols = probe_options((case[1], tuple(case[2]), case[3]))
    elif case[0] == "readme":
        viols = readme_examples()
    else:
        v = case[2]
        if case[1] == "bare":
            v = int(v[4:]) if v.startswith("int:") else v
        elif isinstance(v, str) and v not in ODD and parse_version(v) is None:
            try:
                v = float(v)
            except ValueError:
                pass
        viols, _, _ = check_versions([(case[1], [v])])
    sigs = sorted({v.signature for v in viols})
    print(f"{case}: violations {sigs}")
    if data["signature"] in sigs:
        print(f"VIOLATION property={PROP} replay=<replayed>")
        return 1
    print("did not reproduce on the current tree")
    return 0
