"""C13 - start-up survives damaged persistence files (E3, fault_enumeration)."""
import multiprocessing
import os
import shutil

from ..canon import project_tree
from ..common import NPROC, HarnessError, Report, Violation, short
from ..world import cleanup_process_scratch, install_shims
from .c12 import base_dir, fresh, make_gateway

PROP = "C13"

STATES = {
    "ascii": ["1;255;0;0;17;2.2", "1;0;0;0;3;lamp", "1;0;1;0;2;1"],
    "multibyte": ["1;255;0;0;17;2.2", "1;0;0;0;36;é\U0001d11e", "1;0;1;0;47;日本語 text", "1;255;3;0;11;skëtch"],
    "three": ["1;255;0;0;17;2.2", "2;255;0;0;17;2.1", "3;255;0;0;18;2.0", "2;0;0;0;6;t", "2;0;1;0;0;20.1", "3;255;3;0;0;55"],
}
BACKUP = ["9;255;0;0;17;2.2", "9;4;0;0;3;backup node", "9;4;1;0;2;0"]


def saved_bytes(fmt, lines):
    d = fresh("c13-src")
    path = os.path.join(d, f"p.{fmt}")
    gw = make_gateway(path, lines)
    gw.tasks.persistence.save_sensors()
    with open(path, "rb") as fh:
        data = fh.read()
    tree = project_tree(gw.sensors)
    shutil.rmtree(d, ignore_errors=True)
    return data, tree


def variants(data, tier, dense):
    """[(name, bytes|None)] damage variants of a file."""
    out = [("missing", None), ("intact", data), ("zero", b"\0" * len(data))]
    if dense:
        ks = range(0, len(data))
    else:
        n = len(data)
        ks = sorted(set([0, 1, 2, n // 4, n // 2, n - 2, n - 1] + list(range(0, n, max(1, n // 9)))))
    for k in ks:
        out.append((f"trunc{k}", data[:k]))
    return out


def run_case(case):
    fmt, sname, mname, mdata, bname, bdata, main_tree, bak_tree = case[:8]
    style = case[8] if len(case) > 8 else "absolute"
    install_shims()
    d = os.path.join(base_dir(), "c13")
    shutil.rmtree(d, ignore_errors=True)
    shutil.rmtree(d + "-link", ignore_errors=True)
    if os.path.islink(d + "-link"):
        os.unlink(d + "-link")
    os.makedirs(d)
    path = os.path.join(d, f"p.{fmt}")
    cwd = os.getcwd()
    try:
        return _run_case_in(case, d, path, style)
    finally:
        os.chdir(cwd)
        if os.path.islink(d + "-link"):
            os.unlink(d + "-link")


def _run_case_in(case, d, path, style):
    fmt, sname, mname, mdata, bname, bdata, main_tree, bak_tree = case[:8]
    if mdata is not None:
        with open(path, "wb") as fh:
            fh.write(mdata)
    if bdata is not None:
        with open(path + ".bak", "wb") as fh:
            fh.write(bdata)
    replay = {"kind": "damage", "check": PROP, "case": [fmt, sname, mname, bname, style]}
    cfg_path = path
    if style == "relative":
        # the library default ("mysensors.pickle") and the README examples are relative paths
        os.chdir(d)
        cfg_path = f"p.{fmt}"
    elif style == "symlink":
        os.symlink(d, d + "-link")
        cfg_path = os.path.join(d + "-link", f"p.{fmt}")
    gw = make_gateway(cfg_path, [])
    mclass = mname.rstrip("0123456789")
    bclass = bname.rstrip("0123456789") + ("" if style == "absolute" else f"|path={style}")
    try:
        gw.start_persistence()
    except Exception as exc:  # pylint: disable=broad-except
        return [Violation(PROP, f"startup-raises|{fmt}|main={mclass}|bak={bclass}|{type(exc).__name__}", f"{fmt}/{sname}: main {mname}, backup {bname}: start_persistence raised {type(exc).__name__}: {short(str(exc))}", replay)]
    tree = project_tree(gw.sensors)
    if mname == "intact":
        want, label = main_tree, "main"
    elif bname == "intact":
        want, label = bak_tree, "backup"
    else:
        want, label = (), "empty"
    if tree != want:
        if mname != "intact" and tree == main_tree:
            # a damaged variant that still decodes to the complete saved state (e.g. only padding lost)
            return []
        got = "empty" if tree == () else ("main" if tree == main_tree else ("backup" if tree == bak_tree else "partial"))
        return [Violation(PROP, f"wrong-state|{fmt}|main={mclass}|bak={bclass}|want={label}|got={got}", f"{fmt}/{sname}: main {mname}, backup {bname}: loaded {got} state, expected {label}", replay)]
    return []


def _work(chunk):
    out = []
    for case in chunk:
        out.append((case[:3] + (case[4],) + ((case[8],) if len(case) > 8 else ()), run_case(case)))
    cleanup_process_scratch()
    return out


def build_cases(tier, only=None):
    install_shims()
    cases = []
    sizes = {}
    for fmt in ("json", "pickle"):
        bdata, btree = saved_bytes(fmt, BACKUP)
        for sname, lines in STATES.items():
            mdata, mtree = saved_bytes(fmt, lines)
            sizes[f"{fmt}/{sname}"] = len(mdata)
            mains = variants(mdata, tier, dense=True)
            if tier == "thorough":
                baks = variants(bdata, tier, dense=True)
                baks = [("absent", None)] + [b for b in baks if b[0] != "missing"]
            else:
                baks = variants(bdata, tier, dense=False)
                baks = [("absent", None)] + [b for b in baks if b[0] != "missing"]
            for mname, md in mains:
                for bname, bd in baks:
                    if only and (fmt, sname, mname, bname) != tuple(only[:4]):
                        continue
                    cases.append((fmt, sname, mname, md, bname, bd, mtree, btree))
            # configuration dimension: how the persistence file is named (relative path, symlinked directory)
            for style in ("relative", "symlink"):
                for mname, md in [m for m in mains if m[0] in ("missing", "intact", "zero", "trunc0", "trunc1") or m[0] == f"trunc{len(mdata) // 2}"]:
                    for bname, bd in [b for b in baks if b[0] in ("absent", "intact", "zero", "trunc0")]:
                        if only and ((fmt, sname, mname, bname) != tuple(only[:4]) or (len(only) > 4 and only[4] != style)):
                            continue
                        cases.append((fmt, sname, mname, md, bname, bd, mtree, btree, style))
    cleanup_process_scratch()
    return cases, sizes


def run(tier):
    report = Report(PROP, "fault_enumeration", tier)
    cases, sizes = build_cases(tier)
    chunks = [cases[i::NPROC * 4] for i in range(NPROC * 4)]
    nontrivial = 0
    ctx = multiprocessing.get_context("fork")
    with ctx.Pool(NPROC) as pool:
        for out in pool.imap(_work, [c for c in chunks if c]):
            for ident, viols in out:
                if ident[2] != "intact":
                    nontrivial += 1
                report.add_all(viols)
    cleanup_process_scratch()
    for v in list(report.violations.values()):
        again = replay_case(tuple(v.replay["case"]), tier)
        if not any(a.signature == v.signature for a in again):
            raise HarnessError(f"{v.signature} did not reproduce")
    cov = report.coverage
    cov["evaluations"] = len(cases)
    cov["distinct_nontrivial"] = nontrivial
    cov["rule"] = (
        "case = format x base state x main-file variant (missing, every truncation length 0..len-1, zero-filled, intact) x "
        "backup variant (absent, intact different state, truncations, zero-filled); thorough: every truncation of the backup "
        "too; each case = one real start_persistence() on a fresh gateway; non-trivial = main file damaged or missing"
    )
    cov["exhaustive"] = True
    cov["file_sizes"] = sizes
    cov["samples"] = [list(c[:3]) + [c[4]] for c in cases[:: max(1, len(cases) // 10)]][:10]
    report.assumptions = ["damage model of the statement: missing, empty, truncated at any byte, zero-filled", "files produced by the real save code for three base states (ASCII, multi-byte text, three nodes)"]
    return report.finish()


def replay_case(ident, tier="thorough"):
    cases, _ = build_cases("thorough", only=tuple(ident))
    if not cases:
        cases, _ = build_cases("quick", only=tuple(ident))
    if len(ident) > 4:
        cases = [c for c in cases if (c[8] if len(c) > 8 else "absolute") == ident[4]]
    else:
        cases = [c for c in cases if len(c) == 8]
    out = []
    for case in cases:
        out.extend(run_case(case))
    cleanup_process_scratch()
    return out


def replay(data):
    ident = tuple(data["replay"]["case"])
    viols = replay_case(ident)
    sigs = sorted(v.signature for v in viols)
    print(f"case {ident}: violations {sigs}")
    if data["signature"] in sigs:
        print(f"VIOLATION property={PROP} replay=<replayed>")
        return 1
    print("did not reproduce on the current tree")
    return 0
