"""C14 - a clean stop loses nothing (E1 on real persistence files, model_checking)."""
import os

from .. import alpha, e1check, explore
from ..common import Violation, short
from ..explore import NullMonitor

PROP = "C14"
NAMES = ["PA", "CA0", "SA0", "BAT", "SKN", "SKV", "HBA", "PSA", "IDR", "GWR", "LOG", "CFG", "TIM", "DSC", "SU", "FCA"]


def diff_trees(before, after):
    """Classify the first difference between two project_tree() values."""
    b = dict(before)
    a = dict(after)
    for nid in b:
        if nid not in a:
            return "node-missing", f"node {nid[1]} is missing after the restart"
    for nid in a:
        if nid not in b:
            return "node-extra", f"node {nid[1]} appeared after the restart"
    for nid in b:
        bs, as_ = dict(b[nid]), dict(a[nid])
        for field in bs:
            if field == "children":
                bc, ac = dict(bs[field]), dict(as_[field])
                for cid in bc:
                    if cid not in ac:
                        return "child-missing", f"node {nid[1]} child {cid[1]} is missing after the restart"
                    if bc[cid] != ac[cid]:
                        bcd, acd = dict(bc[cid]), dict(ac[cid])
                        for k in bcd:
                            if bcd[k] != acd.get(k):
                                return f"child-{k}", f"node {nid[1]} child {cid[1]} {k}: {short(bcd[k])} -> {short(acd.get(k))}"
                for cid in ac:
                    if cid not in bc:
                        return "child-extra", f"node {nid[1]} child {cid[1]} appeared after the restart"
            elif bs[field] != as_.get(field):
                return f"attr-{field}", f"node {nid[1]} {field}: {bs[field]} -> {as_.get(field)}"
    return "other", "trees differ"


class C14Spec(explore.Spec):
    prop = PROP
    use_snapshots = False
    has_at_state = True

    def __init__(self, tier="quick"):
        self.tier = tier

    def configs(self, tier):
        out = []
        versions = ("1.4", "2.0", "2.2") if tier == "quick" else ("1.4", "1.5", "2.0", "2.1", "2.2")
        for fmt in ("json", "pickle"):
            for v in versions:
                out.append({"version": v, "persistence": fmt, "cb": "record"})
        out.append({"version": "2.2", "persistence": "json", "cb": "raise"})
        out.append({"version": "2.2", "persistence": "pickle", "cb": None})
        out.append({"version": "2.2", "persistence": "json", "cb": "record", "relpath": True, "depth": 3 if tier == "quick" else 5})
        # the application lets traffic in before it calls start_persistence() (also in a later life, on an existing file)
        out += [{"version": "2.2", "persistence": fmt, "cb": "record", "defer_start": True, "depth": 5 if tier == "quick" else 6} for fmt in ("json", "pickle")]
        # the id range is exhausted (node 254 is known): an id request that cannot be served is one more message kind
        out += [{"version": v, "persistence": fmt, "cb": "record", "focus": "ids-exhausted", "depth": 5} for fmt in ("json", "pickle") for v in ("2.2",)]
        return out

    def alphabet(self, cfg):
        v = cfg["version"]
        if cfg.get("focus") == "ids-exhausted":
            return [alpha.rx(f"254;255;0;0;17;{v}"), alpha.rx("254;255;3;0;0;57"), alpha.rx("254;255;3;0;0;58"), alpha.rx("255;255;3;0;3;"), ("tick",)]
        if cfg.get("defer_start"):
            return alpha.events(v, ["PA", "CA0", "SA0", "BAT", "PB", "IDR"]) + [("tick",), ("restart",), ("startp",)]
        evs = alpha.events(v, NAMES)
        evs += [("tick",), ("tickfail", "fsync"), ("tickfail", "rename"), ("set", 1, 0, 2, "0"), ("fw", 1, 1, 1, "F1")]
        evs.append(alpha.rx(f"0;255;0;0;18;{v}"))  # the gateway's own node id 0 presents itself
        if self.tier == "thorough":
            evs += alpha.events(v, ["PB", "SA0z", "CA1"])
        return evs

    def new_monitor(self, cfg):
        return NullMonitor()

    def at_state(self, world, monitor, hist, cfg):
        """Fork the history here: stop(), fresh gateway, start_persistence(); compare projections."""
        if world.dead is not None:
            return []
        before = world.tree()
        obs = world.apply(("restart",))
        if obs.exc is None and cfg.get("defer_start"):
            obs = world.apply(("startp",))
        monitor.stats["stop_restart_forks"] += 1
        if before:
            monitor.stats["forks_with_nonempty_tree"] += 1
        if obs.exc is not None:
            return [Violation(PROP, f"exception|restart|{obs.exc['type']}@{obs.exc['site']}", f"stop()/restart raised {obs.exc['type']}: {obs.exc['text']}", {"kind": "history+probe", "check": PROP, "cfg": cfg, "history": list(hist)})]
        after = world.tree()
        if before != after:
            cls, text = diff_trees(before, after)
            return [Violation(PROP, f"stop-loses-state|{cls}", f"after {short([e for e in hist], 300)} then stop() and a fresh start: {text}", {"kind": "history+probe", "check": PROP, "cfg": cfg, "history": list(hist)})]
        return []


RULE = (
    "states = distinct canonical states (gateway + file digests + dirty flag + armed timer) reached by BFS over one line "
    "per handler kind, controller calls and TICK at every position; in every state the history is forked: stop(), fresh "
    "gateway on the same file, start_persistence(), and the type-strict projection before stop() is compared with the one "
    "after the restart; evaluations = forks; non-trivial = forks whose tree was non-empty"
)
ASSUMPTIONS = [
    "real SerialGateway with persistence on a scratch directory; threading.Timer replaced by a recorded fake fired by TICK",
    "the raising-callback and no-callback configurations are explored too (alert must mark dirty regardless of the callback)",
]


def run(tier):
    from ..common import HarnessError, Report

    spec = C14Spec(tier)
    report = Report(PROP, "model_checking", tier)
    if tier == "quick":
        explore.run(spec, report, tier, 5, 300000, 600)
    else:
        explore.run(spec, report, tier, 6, 3000000, 1200)
    cov_sync = dict(report.coverage)
    sub = Report(PROP, "model_checking", tier)
    explore.run(C14AsyncSpec(), sub, tier, 4 if tier == "quick" else 5, 200000, 600 if tier == "quick" else 900)
    report.add_all(sub.violations.values())
    app_part = run_app_part(report, tier)
    from .. import tvp

    thr_part = tvp.run_scenarios(report, PROP, "c14t", _t_run_one, list(T_SCENARIOS), 1 if tier == "quick" else 2, 240 if tier == "quick" else 900, T_RULE)
    cov = report.coverage
    cov.update(cov_sync)
    cov["asyncio_application_scripts"] = app_part
    cov["threaded_stop_vs_message"] = thr_part
    cov["schedules"] = thr_part["schedules"]
    wit = cov.get("witnesses", {})
    cov["rule"] = RULE + "; the same fork is explored for the asyncio gateway on the virtual loop (stop() awaits the save in the fake executor)"
    cov["asyncio_flavour"] = {"states": sub.coverage["states"], "transitions": sub.coverage["transitions"], "completed_depth": sub.coverage["completed_depth"], "witnesses": sub.coverage["witnesses"]}
    cov["states"] = cov_sync["states"] + sub.coverage["states"]
    cov["transitions"] = cov_sync["transitions"] + sub.coverage["transitions"]
    cov["traces_validated_against_impl"] = cov["transitions"]
    cov["evaluations"] = wit.get("stop_restart_forks", 0) + cov["transitions"] + sub.coverage["witnesses"].get("async_stop_restart_forks", 0)
    cov["distinct_nontrivial"] = wit.get("forks_with_nonempty_tree", 0)
    cov["caps_hit"] = cov_sync.get("caps_hit", []) + sub.coverage.get("caps_hit", [])
    cov["exhaustive"] = not cov["caps_hit"]
    report.assumptions = list(ASSUMPTIONS)
    return report.finish()


def replay(data):
    if data["replay"].get("kind") == "schedule":
        from .. import tvp

        return tvp.replay_schedule(_t_run_one, data["replay"], PROP)
    if data["replay"].get("kind") == "app-script":
        viols = run_app_script(data["replay"]["fmt"], tuple(data["replay"]["script"]))
        sigs = sorted(v.signature for v in viols)
        print(f"application script {data['replay']['script']} ({data['replay']['fmt']}): violations {sigs}")
        if data["signature"] in sigs:
            print(f"VIOLATION property={PROP} replay=<replayed>")
            return 1
        print("did not reproduce on the current tree")
        return 0
    cfg = data["replay"].get("cfg", {})
    if cfg.get("flavour") == "async":
        return e1check.replay_history(C14AsyncSpec(), data)
    return e1check.replay_history(C14Spec("thorough"), data)


# -- threaded flavour: stop() while the poll thread is still handling a message (E2) --------------------------------

T_SCENARIOS = {
    # name: (inbound line handled by the poll thread, virtual seconds the user's event callback takes)
    "stop-vs-battery-report-slow-callback": ("1;255;3;0;0;57", 3.0),
    "stop-vs-value-report-slow-callback": ("1;0;1;0;2;1", 3.0),
    "stop-vs-battery-report": ("1;255;3;0;0;57", 0.0),
}


def _t_run_one(name, prefix):
    import shutil

    from .. import sched as S
    from ..canon import project_tree
    from ..common import scratch_root
    from .c15 import load_copy
    from .c16 import Conn

    from mysensors.gateway_serial import SerialGateway

    line, slow = T_SCENARIOS[name]
    S.install_library_shims()
    del S.TIMERS[:]
    d = os.path.join(scratch_root(), f"verif-pymys-{os.getpid()}", "c14t")
    shutil.rmtree(d, ignore_errors=True)
    os.makedirs(d)
    sched = S.Scheduler(prefix, trace_files=("mysensors/task.py",), horizon=4000)
    log = sched.log

    def callback(msg):
        if slow:
            S.coop_sleep(slow)  # a user callback that takes longer than the transport's timeout (1 s)

    gw = SerialGateway("/dev/verif", persistence=True, persistence_file=os.path.join(d, "p.json"), protocol_version="2.2", event_callback=callback)
    slow_now, slow = slow, 0.0
    gw.logic("1;255;0;0;17;2.2")
    gw.logic("1;0;0;0;3;lamp")
    gw.start_persistence()  # the first scheduled save runs here: nothing is unsaved when the threads start
    slow = slow_now
    gw.tasks.transport.protocol.connection_made(Conn(log, "c0"))
    S.PUMP_TASKS[0] = gw.tasks

    def body():
        def reader():
            gw.tasks.transport.protocol.handle_line(line)

        def stopper():
            try:
                gw.stop()
            except Exception as exc:  # pylint: disable=broad-except
                log.append(("call-raised", type(exc).__name__, str(exc)[:100], S._site(exc)))

        gw.tasks.transport._connect = lambda tr: None  # the link is already up (fake connection)
        gw.start()
        t1 = sched.spawn(reader, "reader")
        t2 = sched.spawn(stopper, "stopper")
        sched.block(lambda: not t1.alive and not t2.alive, ("join",))
        gw.tasks._stop_event.set()
        sched.block(lambda: all(not t.alive for t in sched.threads[1:]), ("join-rest",))

    sched.run(body)
    findings = []
    if sched.problem is None:
        held = project_tree(gw.sensors)
        try:
            after = load_copy(d, "json")
            if after != held:
                cls, text = diff_trees(held, after)
                findings.append((f"stop-loses-state|{cls}", f"stop() returned while the poll thread was still handling {line!r}; after a fresh load: {text}"))
        except Exception as exc:  # pylint: disable=broad-except
            findings.append((f"fresh-load-raises|{type(exc).__name__}", f"after stop() a fresh load raised {type(exc).__name__}: {short(str(exc))}"))
    sched.findings = findings
    shutil.rmtree(d, ignore_errors=True)
    return sched


T_RULE = (
    "threaded gateway started with start(): the reader thread queues one line, the poll thread handles it (the user's event "
    "callback takes 0 or 3 virtual seconds), the application thread calls stop(); every schedule up to the preemption bound "
    "at line granularity of task.py; oracle: what the gateway holds when everything has ended is what a fresh load yields"
)


# -- asyncio flavour, application as ONE coroutine: which awaits yield to the loop is part of the history ---------

APP_STEPS = ("startp", "rx1", "rx2", "yield", "tick")


def app_scripts(tier):
    """Every application coroutine body of the form: <steps> ; await stop() with steps from APP_STEPS, at most one
    start_persistence, at most 4 (quick) / 5 (thorough) steps. 'yield' = await asyncio.sleep(0) (the loop runs what is
    ready), 'tick' = sleep past the next periodic save; rx = a synchronous Gateway.logic call (an MQTT client callback,
    say). Without 'yield' between two steps the loop gets no chance to run the tasks the library has created."""
    import itertools

    n = 4 if tier == "quick" else 5
    out = []
    for k in range(0, n + 1):
        for seq in itertools.product(APP_STEPS, repeat=k):
            if seq.count("startp") > 1 or seq.count("tick") > 1 or seq.count("rx1") > 1 or seq.count("rx2") > 1:
                continue
            if "tick" in seq and ("startp" not in seq or seq.index("tick") < seq.index("startp")):
                continue
            out.append(seq)
    return out


def run_app_script(fmt, seq):
    """One script on a fresh virtual loop. Returns (violations, info)."""
    import asyncio
    import shutil

    from ..canon import project_tree
    from ..vloop import VLoop
    from ..world import install_shims
    from .c12 import fresh
    from .c15 import load_copy

    from mysensors.gateway_serial import AsyncSerialGateway

    install_shims()
    directory = fresh("c14-app")
    loop = VLoop()
    gw = AsyncSerialGateway("/dev/verif", persistence=True, persistence_file=os.path.join(directory, f"p.{fmt}"), protocol_version="2.2")
    lines = {"rx1": "1;255;0;0;17;2.2", "rx2": "2;255;0;0;17;2.2"}
    seen = {}

    async def app():
        for step in seq:
            if step == "startp":
                await gw.start_persistence()
            elif step == "yield":
                await asyncio.sleep(0)
            elif step == "tick":
                await asyncio.sleep(10.5)
            else:
                gw.logic(lines[step])
        seen["before"] = project_tree(gw.sensors)
        await gw.stop()

    viols = []
    rep = {"kind": "app-script", "check": PROP, "fmt": fmt, "script": list(seq)}
    try:
        task = loop.start(app())
        guard = 0
        while not task.done() and guard < 50:
            guard += 1
            if loop.executor_jobs:
                loop.complete_executor(0)
            elif not loop.fire_next_timer():
                break
        if not task.done():
            viols.append(Violation(PROP, "async-app|stop-hangs", f"application coroutine {list(seq)} + stop() never finished", rep))
        elif task.cancelled():
            viols.append(Violation(PROP, "async-app|exception|CancelledError", f"application coroutine {list(seq)}: await stop() ended in CancelledError (the final save did not run)", rep))
        elif task.exception() is not None:
            exc = task.exception()
            viols.append(Violation(PROP, f"async-app|exception|{type(exc).__name__}", f"application coroutine {list(seq)}: {type(exc).__name__}: {short(str(exc))}", rep))
        else:
            after = load_copy(directory, fmt)
            if after != seen["before"]:
                cls, text = diff_trees(seen["before"], after)
                viols.append(Violation(PROP, f"async-app|stop-loses-state|{cls}", f"application coroutine {list(seq)} then stop() and a fresh load: {text}", rep))
    finally:
        try:
            loop.shutdown()
        except Exception:  # pylint: disable=broad-except
            pass
        shutil.rmtree(directory, ignore_errors=True)
    return viols


def _app_work(chunk):
    import logging

    logging.disable(logging.CRITICAL)
    out = []
    for fmt, seq in chunk:
        out.extend(run_app_script(fmt, seq))
    from ..world import cleanup_process_scratch

    cleanup_process_scratch()
    return out, len(chunk)


def run_app_part(report, tier):
    import multiprocessing

    from ..common import NPROC

    cases = [(fmt, seq) for fmt in ("json", "pickle") for seq in app_scripts(tier)]
    chunks = [cases[i::NPROC * 2] for i in range(NPROC * 2)]
    n = 0
    found = []
    with multiprocessing.get_context("fork").Pool(NPROC) as pool:
        for viols, k in pool.imap_unordered(_app_work, [c for c in chunks if c]):
            n += k
            found.extend(viols)
    found.sort(key=lambda v: (len(v.replay["script"]), v.replay["script"], v.replay["fmt"]))  # shortest script is reported
    report.add_all(found)
    return {"scripts": n, "rule": "the application as one coroutine on the virtual loop: every sequence of at most 4 (quick) / 5 (thorough) steps from {await start_persistence, synchronous logic(line) x2, await sleep(0), sleep past the next periodic save} followed by await stop(); executor jobs are completed as they appear; oracle: stop() returns normally and a fresh load yields the tree held before stop()"}


# -- asyncio flavour: the same fork on the virtual loop -----------------------------------------------


class AsyncPersistWorld:
    """AsyncSerialGateway with persistence on the virtual loop (start_persistence done), E1 world interface."""

    def __init__(self, cfg):
        from .c15 import AsyncRun

        self.cfg = cfg
        self.run = AsyncRun(cfg["persistence"], kind=cfg.get("kind", "serial"))
        self.gw = self.run.gw
        self.dead = None
        self.started = False

    def apply(self, ev):
        from ..world import Obs, exc_info

        obs = Obs()
        if self.dead is not None:
            obs.exc, obs.where = self.dead, "dead"
            return obs
        try:
            if ev[0] == "rx":
                self.run.feed([ev[1]])
            elif ev[0] == "tick":
                err = self.run.tick(None)
                if err not in (None, "no-timer", "no-save-started"):
                    obs.exc = exc_info(err) if isinstance(err, BaseException) else {"type": "str", "text": str(err), "site": "?"}
            elif ev[0] == "tickfail":
                from ..fsfault import FaultFS

                self.run.tick(FaultFS("fail", at_name=ev[1]))
            elif ev[0] == "set":
                self.run.loop.call(self.gw.set_child_value, ev[1], ev[2], ev[3], ev[4])
                self.run.loop.run_ready()
            elif ev[0] == "start":
                # the transport side: gateway.start() dials through the (fake) serial_asyncio
                import types

                import mysensors.gateway_serial as gs

                loop = self.run.loop
                gs.serial_asyncio = types.SimpleNamespace(create_serial_connection=loop.create_serial_connection)
                if not self.started:
                    self.started = True
                    loop.start(self.gw.start())
            elif ev[0] == "conn-ok":
                if self.run.loop.live_requests():
                    self.run.loop.answer_connection("ok")
            elif ev[0] == "lost":
                links = [t for t in self.run.loop.links_made if not t.lost_reported]
                if links:
                    self.run.loop.call(links[-1]._report_lost, ConnectionResetError("device error (harness)"))
                    self.run.loop.run_ready()
        except Exception as exc:  # pylint: disable=broad-except
            obs.exc = exc_info(exc)
            obs.where = "call"
            self.dead = obs.exc
        return obs

    def tree(self):
        from ..canon import project_tree

        return project_tree(self.gw.sensors)

    def stop_and_reload(self):
        from .c15 import load_copy

        err = self.run.stop()
        return err, load_copy(self.run.dir, self.cfg["persistence"])

    def key(self, extra=None):
        import hashlib

        from .. import canon

        files = []
        for name in sorted(os.listdir(self.run.dir)):
            with open(os.path.join(self.run.dir, name), "rb") as fh:
                files.append((name, canon.digest(fh.read()).hex()))
        loop = self.run.loop
        link = (self.started, len(loop.live_requests()), len([t for t in loop.links_made if not t.lost_reported]), self.gw.tasks.transport.connect_task is not None)
        text = repr((canon.walk(self.gw.sensors), self.gw.tasks.persistence.need_save, tuple(files), len(loop.pending_timers()), link, repr(self.dead), extra))
        return hashlib.blake2b(text.encode("utf-8", "surrogatepass"), digest_size=12).digest()

    def snapshot(self):
        return None

    def close(self):
        self.run.close()


class C14AsyncSpec(explore.Spec):
    prop = PROP
    use_snapshots = False
    has_at_state = True

    def configs(self, tier):
        return [{"version": "2.2", "persistence": fmt, "flavour": "async"} for fmt in ("json", "pickle")] + [{"version": "2.2", "persistence": "json", "flavour": "async", "kind": "tcp", "depth": 4}]

    def make_world(self, cfg):
        return AsyncPersistWorld(cfg)

    def alphabet(self, cfg):
        t = alpha.lines("2.2")
        return [alpha.rx(t[n]) for n in ("PA", "CA0", "SA0", "BAT", "IDR", "PSA", "CFG")] + [("tick",), ("tickfail", "fsync"), ("set", 1, 0, 2, "0"), ("start",), ("conn-ok",), ("lost",)]

    def new_monitor(self, cfg):
        return NullMonitor()

    def at_state(self, world, monitor, hist, cfg):
        if world.dead is not None:
            return []
        before = world.tree()
        err, after = world.stop_and_reload()
        monitor.stats["async_stop_restart_forks"] += 1
        rep = {"kind": "history+probe", "check": PROP, "cfg": cfg, "history": list(hist)}
        if err is not None:
            return [Violation(PROP, f"exception|async-stop|{type(err).__name__}", f"asyncio stop() raised {type(err).__name__}: {short(str(err))}", rep)]
        if before != after:
            cls, text = diff_trees(before, after)
            return [Violation(PROP, f"stop-loses-state|async|{cls}", f"asyncio gateway: after {short(list(hist), 300)} then stop() and a fresh load: {text}", rep)]
        return []
