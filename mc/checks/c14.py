"""C14 - a clean stop loses nothing (E1 on real persistence files, model_checking)."""
from .. import alpha, e1check, explore
from ..common import Violation, short
from ..explore import NullMonitor

PROP = "C14"
NAMES = ["PA", "CA0", "SA0", "BAT", "SKN", "SKV", "HBA", "PSA", "IDR", "GWR", "LOG", "CFG", "TIM", "DSC", "SU", "FCA"]


def diff_trees(before, after):
    """Classify the first difference between two project_tree() values."""
    b = dict(before)
    a = dict(after)
    for nid in b:
        if nid not in a:
            return "node-missing", f"node {nid[1]} is missing after the restart"
    for nid in a:
        if nid not in b:
            return "node-extra", f"node {nid[1]} appeared after the restart"
    for nid in b:
        bs, as_ = dict(b[nid]), dict(a[nid])
        for field in bs:
            if field == "children":
                bc, ac = dict(bs[field]), dict(as_[field])
                for cid in bc:
                    if cid not in ac:
                        return "child-missing", f"node {nid[1]} child {cid[1]} is missing after the restart"
                    if bc[cid] != ac[cid]:
                        bcd, acd = dict(bc[cid]), dict(ac[cid])
                        for k in bcd:
                            if bcd[k] != acd.get(k):
                                return f"child-{k}", f"node {nid[1]} child {cid[1]} {k}: {short(bcd[k])} -> {short(acd.get(k))}"
                for cid in ac:
                    if cid not in bc:
                        return "child-extra", f"node {nid[1]} child {cid[1]} appeared after the restart"
            elif bs[field] != as_.get(field):
                return f"attr-{field}", f"node {nid[1]} {field}: {bs[field]} -> {as_.get(field)}"
    return "other", "trees differ"


class C14Spec(explore.Spec):
    prop = PROP
    use_snapshots = False
    has_at_state = True

    def __init__(self, tier="quick"):
        self.tier = tier

    def configs(self, tier):
        out = []
        versions = ("1.4", "2.0", "2.2") if tier == "quick" else ("1.4", "1.5", "2.0", "2.1", "2.2")
        for fmt in ("json", "pickle"):
            for v in versions:
                out.append({"version": v, "persistence": fmt, "cb": "record"})
        out.append({"version": "2.2", "persistence": "json", "cb": "raise"})
        out.append({"version": "2.2", "persistence": "pickle", "cb": None})
        return out

    def alphabet(self, cfg):
        v = cfg["version"]
        evs = alpha.events(v, NAMES)
        evs += [("tick",), ("tickfail", "fsync"), ("tickfail", "rename"), ("set", 1, 0, 2, "0"), ("fw", 1, 1, 1, "F1")]
        if self.tier == "thorough":
            evs += alpha.events(v, ["PB", "SA0z", "CA1"])
        return evs

    def new_monitor(self, cfg):
        return NullMonitor()

    def at_state(self, world, monitor, hist, cfg):
        """Fork the history here: stop(), fresh gateway, start_persistence(); compare projections."""
        if world.dead is not None:
            return []
        before = world.tree()
        obs = world.apply(("restart",))
        monitor.stats["stop_restart_forks"] += 1
        if before:
            monitor.stats["forks_with_nonempty_tree"] += 1
        if obs.exc is not None:
            return [Violation(PROP, f"exception|restart|{obs.exc['type']}@{obs.exc['site']}", f"stop()/restart raised {obs.exc['type']}: {obs.exc['text']}", {"kind": "history+probe", "check": PROP, "cfg": cfg, "history": list(hist)})]
        after = world.tree()
        if before != after:
            cls, text = diff_trees(before, after)
            return [Violation(PROP, f"stop-loses-state|{cls}", f"after {short([e for e in hist], 300)} then stop() and a fresh start: {text}", {"kind": "history+probe", "check": PROP, "cfg": cfg, "history": list(hist)})]
        return []


RULE = (
    "states = distinct canonical states (gateway + file digests + dirty flag + armed timer) reached by BFS over one line "
    "per handler kind, controller calls and TICK at every position; in every state the history is forked: stop(), fresh "
    "gateway on the same file, start_persistence(), and the type-strict projection before stop() is compared with the one "
    "after the restart; evaluations = forks; non-trivial = forks whose tree was non-empty"
)
ASSUMPTIONS = [
    "real SerialGateway with persistence on a scratch directory; threading.Timer replaced by a recorded fake fired by TICK",
    "the raising-callback and no-callback configurations are explored too (alert must mark dirty regardless of the callback)",
]


def run(tier):
    spec = C14Spec(tier)

    def extra(cov, wit):
        return {"evaluations": wit.get("stop_restart_forks", 0) + cov["transitions"], "distinct_nontrivial": wit.get("forks_with_nonempty_tree", 0)}

    if tier == "quick":
        return e1check.run_e1(spec, tier, depth=5, state_budget=300000, time_budget=150, rule=RULE, assumptions=ASSUMPTIONS, extra_cov=extra)
    return e1check.run_e1(spec, tier, depth=6, state_budget=3000000, time_budget=1800, rule=RULE, assumptions=ASSUMPTIONS, extra_cov=extra)


def replay(data):
    return e1check.replay_history(C14Spec("thorough"), data)
