"""C12 - saving replaces the persistence file atomically (E3, fault_enumeration)."""
import multiprocessing
import os
import shutil

from ..canon import project_tree
from ..common import NPROC, Report, Violation, scratch_root, short
from ..fsfault import CrashNow, FaultFS, describe
from ..world import cleanup_process_scratch, install_shims

PROP = "C12"
PRIORS = ("nothing", "main", "main+bak", "main+tmp", "main+bak+tmp")

OLD = ["1;255;0;0;17;2.2", "1;0;0;0;3;lamp", "1;0;1;0;2;0", "1;255;3;0;11;old sketch é"]
NEW = OLD + ["1;0;1;0;2;1", "2;255;0;0;17;2.2", "2;0;0;0;6;temp", "2;0;1;0;0;21.5", "1;255;3;0;0;77"]
# the stale files are LONGER than the old and the new serialisation (a temp file that is not truncated shows)
STALE = ["7;255;0;0;17;2.2", "7;3;0;0;3;stale", "7;255;3;0;11;" + "stale sketch " * 40, "8;255;0;0;17;2.2", "8;1;0;0;36;" + "s" * 300, "9;255;0;0;17;2.2"]
LATER = NEW + ["3;255;0;0;17;2.2", "1;0;1;0;2;0"]


def make_gateway(path, lines):
    from mysensors.gateway_serial import SerialGateway

    gw = SerialGateway("/dev/verif", persistence=True, persistence_file=path, protocol_version="2.2")
    for line in lines:
        gw.logic(line)
    return gw


def tree_of(lines):
    return project_tree(make_gateway("/nonexistent/p.json", lines).sensors)


def base_dir():
    d = os.path.join(scratch_root(), f"verif-pymys-{os.getpid()}")
    os.makedirs(d, exist_ok=True)
    return d


def fresh(name):
    d = os.path.join(base_dir(), name)
    shutil.rmtree(d, ignore_errors=True)
    os.makedirs(d)
    return d


def prepare_template(fmt, prior):
    """A directory holding the prior on-disk configuration, written by the real save code."""
    d = fresh(f"tmpl-{fmt}-{prior}")
    path = os.path.join(d, f"p.{fmt}")
    stem = os.path.join(d, "p")
    if prior != "nothing":
        make_gateway(path, OLD).tasks.persistence.save_sensors()
        stale_dir = fresh("stale")
        spath = os.path.join(stale_dir, f"p.{fmt}")
        make_gateway(spath, STALE).tasks.persistence.save_sensors()
        if "bak" in prior:
            shutil.copy(spath, f"{path}.bak")
        if "tmp" in prior:
            shutil.copy(spath, f"{stem}.tmp.{fmt}")
        shutil.rmtree(stale_dir, ignore_errors=True)
    return d


def load_fresh(directory, fmt, path=None):
    """Fresh gateway, real start_persistence() (no faults). Returns (tree, gateway) or raises."""
    path = path or os.path.join(directory, f"p.{fmt}")
    gw = make_gateway(path, [])
    gw.start_persistence()
    return project_tree(gw.sensors), gw


def record_ops(fmt, prior):
    d = fresh("record")
    tmpl = prepare_template(fmt, prior)
    shutil.rmtree(d)
    shutil.copytree(tmpl, d)
    path = os.path.join(d, f"p.{fmt}")
    gw = make_gateway(path, NEW)
    fs = FaultFS("record")
    fs.install()
    try:
        gw.tasks.persistence.save_sensors()
    except Exception:  # pylint: disable=broad-except
        # an unfaulted save that raises on this prior configuration: judged by the 'nothing injected' scenario
        return []
    finally:
        fs.uninstall()
    return fs.ops


def run_scenario(scn):
    """One crash / fail scenario on a fresh copy of the template. Returns (violations, info)."""
    install_shims()
    fmt, prior, mode, at, cut, loss = scn[:6]
    persistent = mode == "failp"  # the operation keeps failing for the rest of this save (a retry does not help)
    buffered = len(scn) > 6 and scn[6] == "buffered"
    style = scn[6] if len(scn) > 6 and scn[6] in ("relative", "symlink", "filelink") else "absolute"
    tmpl = os.path.join(base_dir(), f"tmpl-{fmt}-{prior}")
    if not os.path.isdir(tmpl):
        prepare_template(fmt, prior)
    d = os.path.join(base_dir(), "scn")
    shutil.rmtree(d, ignore_errors=True)
    if os.path.islink(d + "-link"):
        os.unlink(d + "-link")
    shutil.copytree(tmpl, d)
    path = os.path.join(d, f"p.{fmt}")
    cwd = os.getcwd()
    if style == "relative":
        os.chdir(d)
        path = f"p.{fmt}"
    elif style == "symlink":
        os.symlink(d, d + "-link")
        path = os.path.join(d + "-link", f"p.{fmt}")
    elif style == "filelink":
        # the persistence file itself is a symbolic link to a file in another directory
        shutil.rmtree(d + "-fl", ignore_errors=True)
        os.makedirs(d + "-fl")
        os.symlink(os.path.join(d, f"p.{fmt}"), os.path.join(d + "-fl", f"p.{fmt}"))
        path = os.path.join(d + "-fl", f"p.{fmt}")
    try:
        return _run_scenario_at(scn, d, path, fmt, prior, "fail" if persistent else mode, at, cut, loss, buffered, style, persistent)
    finally:
        os.chdir(cwd)
        if os.path.islink(d + "-link"):
            os.unlink(d + "-link")
        shutil.rmtree(d + "-fl", ignore_errors=True)


def _run_scenario_at(scn, d, path, fmt, prior, mode, at, cut, loss, buffered, style, persistent=False):
    old_tree = TREES["old"] if prior != "nothing" else ()
    new_tree = TREES["new"]
    viols = []
    replay = {"kind": "fault", "check": PROP, "scenario": list(scn)}
    gw = make_gateway(path, NEW)
    fs = FaultFS(mode, at, cut, buffered=buffered, persistent=persistent)
    fs.install()
    raised = None
    try:
        gw.tasks.persistence.save_sensors()
    except CrashNow:
        raised = "crash"
    except Exception as exc:  # pylint: disable=broad-except
        raised = exc
    finally:
        fs.uninstall()
    op = fs.ops[at] if at is not None and at < len(fs.ops) else None
    opname = op[0] + (":" + op[1] if op and len(op) > 1 else "") if op else "none"
    reached = fs.injected
    if mode == "crash":
        if raised != "crash":
            # the save finished before reaching the crash point (op index beyond this run)
            pass
        fs.apply_loss(loss)
    if mode == "crash" and isinstance(raised, Exception) and not fs.crashed and not reached:
        viols.append(Violation(PROP, f"save-raises-without-fault|{fmt}|{prior}|{type(raised).__name__}", f"{fmt}/{prior}: a save with nothing injected before it raised {type(raised).__name__}: {short(str(raised))}", replay))
        return viols, reached
    if persistent and raised is None and reached:
        viols.append(Violation(PROP, f"persistent-failure-swallowed|{fmt}|{opname}", f"{fmt}/{prior}: {describe(op)} kept failing, yet save_sensors() returned normally", replay))
    sig_loc = ("persistent|" if persistent else "") + ("buffered|" if buffered else "") + (f"path={style}|" if style != "absolute" else "") + f"{mode}@{opname}" + (f"+torn" if cut else "") + (f"|loss={loss if isinstance(loss, str) else 'prefix'}" if mode == "crash" else "")
    if mode == "fail":
        if isinstance(raised, Exception) and not isinstance(raised, OSError):
            viols.append(Violation(PROP, f"fail-raises-other|{sig_loc}|{type(raised).__name__}", f"failing {describe(op)} made save raise {type(raised).__name__}: {raised}", replay))
        if raised is not None and not gw.tasks.persistence.need_save:
            viols.append(Violation(PROP, f"dirty-flag-cleared|{sig_loc}", f"save failed at {describe(op)} but the state is no longer marked unsaved", replay))
    # start-up load after the interrupted / failed save
    try:
        tree, gw2 = load_fresh(d, fmt, path)
    except Exception as exc:  # pylint: disable=broad-except
        viols.append(Violation(PROP, f"load-raises|{sig_loc}|{type(exc).__name__}", f"{fmt}/{prior}: after {mode} at op {at} ({describe(op) if op else '-'}), loss {loss}: start-up raised {type(exc).__name__}: {short(str(exc))}", replay))
        return viols, reached
    if tree != old_tree and tree != new_tree:
        what = "empty" if tree == () else ("stale" if tree == TREES["stale"] else "partial/mixed")
        viols.append(Violation(PROP, f"loaded-{what}|{sig_loc}", f"{fmt}/{prior}: after {mode} at op {at} ({describe(op) if op else '-'}), loss {loss}: start-up loaded a state that is neither the previous nor the new one ({what})", replay))
    # the next save succeeds and persists the then-current state
    try:
        if mode == "fail":
            # same process continues: first retry the save in the process that saw the failure
            gw.tasks.persistence.save_sensors()
            t_retry, _ = load_fresh(d, fmt, path)
            if t_retry != new_tree:
                viols.append(Violation(PROP, f"retry-save-wrong|{sig_loc}", f"{fmt}/{prior}: after a failed {describe(op)}, the retried save did not persist the current state", replay))
        for line in LATER[len(NEW):]:
            gw2.logic(line)
        gw2.tasks.persistence.need_save = True
        gw2.tasks.persistence.save_sensors()
        t2, _ = load_fresh(d, fmt, path)
        want = project_tree(gw2.sensors)
        if t2 != want:
            viols.append(Violation(PROP, f"next-save-wrong|{sig_loc}", f"{fmt}/{prior}: after {mode} at op {at}, the next save+load did not yield the then-current state", replay))
    except Exception as exc:  # pylint: disable=broad-except
        viols.append(Violation(PROP, f"next-save-raises|{sig_loc}|{type(exc).__name__}", f"{fmt}/{prior}: after {mode} at op {at} ({describe(op) if op else '-'}): the next save raised {type(exc).__name__}: {short(str(exc))}", replay))
    return viols, reached


TREES = {}


def _init_trees():
    install_shims()
    if not TREES:
        TREES["old"] = tree_of(OLD)
        TREES["new"] = tree_of(NEW)
        TREES["stale"] = tree_of(STALE)


def _work(chunk):
    _init_trees()
    out = []
    for scn in chunk:
        viols, reached = run_scenario(scn)
        out.append((scn, viols, reached))
    cleanup_process_scratch()
    return out


def scenarios(tier):
    _init_trees()
    scns = []
    oplog = {}
    for fmt in ("json", "pickle"):
        for prior in PRIORS:
            ops = record_ops(fmt, prior)
            oplog[f"{fmt}/{prior}"] = [describe(o) for o in ops]
            nwrites_before = 0
            for k, op in enumerate(ops):
                # unsynced writes that exist when the crash happens at op k
                losses = ["none", "drop", "zero"]
                if tier == "thorough":
                    js = range(0, nwrites_before + 1)
                else:
                    js = sorted({0, 1, nwrites_before // 2, max(nwrites_before - 1, 0)})
                losses += [("prefix", j) for j in js if j <= nwrites_before]
                for loss in losses:
                    scns.append((fmt, prior, "crash", k, None, loss))
                if op[0] == "write":
                    n = op[2]
                    for cut in sorted({1, n // 2, n - 1}):
                        if 0 < cut < n:
                            for loss in ("none", "drop", "zero"):
                                scns.append((fmt, prior, "crash", k, cut, loss))
                    nwrites_before += 1
                if op[0] == "fsync":
                    nwrites_before = 0
                scns.append((fmt, prior, "fail", k, None, "none"))
                if op[0] in ("rename", "remove", "fsync", "open"):
                    scns.append((fmt, prior, "failp", k, None, "none"))
            # one past the end: the save completes, nothing injected (sanity: must load 'new')
            for loss in ("none", "drop", "zero", ("prefix", 0), ("prefix", 1)):
                scns.append((fmt, prior, "crash", len(ops), None, loss))
    # configuration dimension: the persistence file named by a relative path / through a symlinked directory
    scns += [s[:6] + (style,) for s in scns if s[4] is None and s[5] == "none" and s[1] in ("main", "main+bak") for style in ("relative", "symlink", "filelink")]
    # second file model: Python's user-space buffer (data reaches the OS at flush/close, is lost at process death)
    scns += [s + ("buffered",) for s in scns if len(s) == 6 and s[4] is None and (s[5] in ("none", "drop", "zero") or s[5] == ("prefix", 0))]
    cleanup_process_scratch()
    return scns, oplog


def run(tier):
    report = Report(PROP, "fault_enumeration", tier)
    scns, oplog = scenarios(tier)
    chunks = [scns[i::NPROC * 4] for i in range(NPROC * 4)]
    ctx = multiprocessing.get_context("fork")
    reached = 0
    with ctx.Pool(NPROC) as pool:
        for out in pool.imap(_work, [c for c in chunks if c]):
            for scn, viols, hit in out:
                reached += 1 if hit else 0
                report.add_all(viols)
    cleanup_process_scratch()
    # every violation must reproduce
    for v in list(report.violations.values()):
        _init_trees()
        again, _ = run_scenario(tuple(tuple(x) if isinstance(x, list) else x for x in v.replay["scenario"]))
        if not any(a.signature == v.signature for a in again):
            from ..common import HarnessError

            raise HarnessError(f"{v.signature} did not reproduce")
    cleanup_process_scratch()
    cov = report.coverage
    cov["evaluations"] = len(scns)
    cov["distinct_nontrivial"] = reached
    cov["rule"] = (
        "scenario = format x prior disk configuration x operation index of the save as crash point (x loss mode none/drop/"
        "zero/prefix-j, x torn-write cut for writes) or as failing operation; non-trivial = the injected operation was "
        "actually reached; after each, a fresh gateway loads with the real start_persistence() and one more save+load follows"
    )
    cov["exhaustive"] = True
    cov["operations_per_save"] = {k: len(v) for k, v in oplog.items()}
    cov["samples"] = [list(map(str, s)) for s in scns[:: max(1, len(scns) // 8)]][:8] + [oplog["pickle/main+bak+tmp"]]
    cov["prefix_j"] = "every j" if tier == "thorough" else "j in {0,1,half,last}"
    report.assumptions = [
        "file model: per-file durable bytes (covered by the last fsync) vs volatile bytes at write-call granularity; directory operations (create, rename, remove) atomic, ordered and durable",
        "every scenario is run under two write models: unbuffered (each write call reaches the OS at once) and buffered (data sits in a user-space buffer until flush/close and dies with the process)",
        "loss modes: none (process death only), drop (volatile bytes lost), zero (volatile bytes read as NUL), prefix-j (first j unsynced writes survive)",
        "old, stale and new states are three different node sets; stale .bak/.tmp files hold the stale state",
    ]
    return report.finish()


def replay(data):
    _init_trees()
    scn = data["replay"]["scenario"]
    scn = tuple(tuple(x) if isinstance(x, (list, tuple)) else x for x in scn)
    viols, _ = run_scenario(scn)
    cleanup_process_scratch()
    sigs = sorted(v.signature for v in viols)
    print(f"scenario {scn}: violations {sigs}")
    if data["signature"] in sigs:
        print(f"VIOLATION property={PROP} replay=<replayed>")
        return 1
    print("did not reproduce on the current tree")
    return 0
