"""C10 - OTA sessions are gated, restartable and terminate (E1, model_checking)."""
from .. import alpha, e1check, explore
from ..monitors import GatewayMonitor
from ..ref_codec import words_to_hex

PROP = "C10"


def stream_lines():
    cfg_ok = words_to_hex(1, 0, 8, 0xABCD, 0x0102)
    out = {
        "FCA": "1;255;4;0;0;" + cfg_ok,
        "FCB": "2;255;4;0;0;" + cfg_ok,
        "FCU": "9;255;4;0;0;" + cfg_ok,
        "FRA0": "1;255;4;0;2;" + words_to_hex(1, 1, 0),
        "FRA7": "1;255;4;0;2;" + words_to_hex(1, 1, 7),
        "FRA16": "1;255;4;0;2;" + words_to_hex(1, 1, 16),  # beyond the padded image
        "FRA12": "1;255;4;0;2;" + words_to_hex(1, 2, 1),  # other version
        "FRA77": "1;255;4;0;2;" + words_to_hex(7, 7, 0),  # firmware that does not exist
        "FRB0": "2;255;4;0;2;" + words_to_hex(1, 1, 0),
        "FCAtrunc": "1;255;4;0;0;" + cfg_ok[:-2],
        "FCAodd": "1;255;4;0;0;" + cfg_ok[:-1],
        "FCAnonhex": "1;255;4;0;0;zz" + cfg_ok[2:],
        "FCAnonascii": "1;255;4;0;0;\ufffd\ufffd" + cfg_ok[2:],  # what the line reader makes of a corrupted byte
        "FRAnonascii": "1;255;4;0;2;\u0663\u0663" + words_to_hex(1, 1, 0)[2:],
        "FCAempty": "1;255;4;0;0;",
        "FRAtrunc": "1;255;4;0;2;0100",
        "FRAodd": "1;255;4;0;2;" + words_to_hex(1, 1, 0)[:-1],
        "FRAnonhex": "1;255;4;0;2;zz" + words_to_hex(1, 1, 0)[2:],
        "FRAempty": "1;255;4;0;2;",
        "FRAlong": "1;255;4;0;2;" + words_to_hex(1, 1, 0, 0),
        "FCAlong": "1;255;4;0;0;" + cfg_ok + "00",  # trailing byte
        "FRAcfg": "1;255;4;0;2;" + cfg_ok,  # the config payload under the block-request sub-type
        "FX": "1;255;4;0;4;abc",  # stream sub-type without handler
    }
    return out


QUICK = ["FCA", "FCB", "FCU", "FRA0", "FRA7", "FRA16", "FRA12", "FRA77", "FRB0", "FCAtrunc", "FCAnonhex", "FRAnonascii", "FRAodd", "FRAempty", "FRAlong", "FCAlong", "FX"]
ALL = list(stream_lines())


class C10Spec(explore.Spec):
    prop = PROP

    def __init__(self, tier="quick"):
        self.tier = tier

    def configs(self, tier):
        versions = ("1.4", "2.2") if tier == "quick" else ("1.4", "1.5", "2.0", "2.1", "2.2")
        return [{"version": v, "cb": None} for v in versions] + [{"version": "2.2", "cb": None, "flavour": "async"}, {"version": "1.4", "cb": None, "focus": "fw0", "depth": 6}]

    def alphabet(self, cfg):
        v = cfg["version"]
        st = stream_lines()
        if cfg.get("focus") == "fw0":
            # firmware type 0 / version 0 are values like any other: a small alphabet around them
            return [
                ("fw", 2, 0, 0, "F1"), ("fw", (1, 2), 0, 0, None), ("fw", 1, 0, 1, "F2"), ("fw", 1, 1, 0, "F2"),
                alpha.rx(st["FCA"]), alpha.rx(st["FCB"]),
                alpha.rx("2;255;4;0;2;" + words_to_hex(0, 0, 0)), alpha.rx("1;255;4;0;2;" + words_to_hex(0, 0, 7)),
                alpha.rx("1;255;4;0;2;" + words_to_hex(0, 1, 0)), alpha.rx("1;255;4;0;2;" + words_to_hex(1, 0, 0)),
            ] + alpha.events(v, ["SB0", "PB"])
        names = QUICK if self.tier == "quick" else ALL
        evs = [alpha.rx(st[n]) for n in names]
        evs += alpha.events(v, ["SA0", "SB0", "PA", "PB", "CA1", "CA0", "WA"])  # WA (2.x): A announces smart sleep  # CA1: a NEW child presents itself (not a node presentation)
        evs += [
            ("fw", 1, 1, 1, "F1"),
            ("fw", (1, 2), 1, 1, "F1"),
            ("fw", 1, 1, 2, "F2"),
            ("fw", 9, 1, 1, "F1"),
            ("fw", 1, 2, 9, None),
            ("fw", 1, 1, 1, None),
            ("fw", 1, 3, 3, "missing"),
            ("fw", 1, 3, 3, "invalid"),
            ("fw", 1, 1, 1, "missing"),  # bad path for a type/version whose image is already cached
            ("fw", 1, 1, 1, "invalid"),
            ("fw", 1, "x", 1, "F1"),
            ("fw", 1, "1", "1", "F1"),  # type/version as convertible strings (config file, service call)
            ("fw", 2, "1", " 1", None),
        ]
        return evs

    def roots(self, cfg):
        t = alpha.lines(cfg["version"])
        out = [tuple(alpha.rx(t[n]) for n in ("PA", "CA0", "PB", "CB0"))]
        if "WA" in t and (self.tier != "quick" or cfg.get("flavour") != "async"):
            # A asleep (smart sleep announced): stream replies must still be immediate and the session must still run
            out.append(tuple(alpha.rx(t[n]) for n in ("PA", "CA0", "WA", "PB", "CB0")))
        return out

    def new_monitor(self, cfg):
        return GatewayMonitor(PROP, cfg["version"], {"ota", "replies", "exc"})


RULE = (
    "transition = one event (update call, config/block request well- or malformed, set message, presentation) executed "
    "on a real gateway from a distinct canonical state; the step's emissions are compared with the reference session "
    "automaton (phase none/requested/offered/fetching per node, reboot flag), config and block responses are decoded "
    "and checked against the scheduled image; distinct = canonical state key (includes the OTA stores)"
)
ASSUMPTIONS = [
    "nodes A=1, B=2 known (prepared root, itself replayed and checked), U=9 unknown; images F1 (100 bytes) and F2 (130 bytes)",
    "reply content is UNSPEC for a block index beyond the image and for a well-formed request naming another existing firmware; totality and gating are still checked",
    "callback count for stream requests is not judged here",
]


# -- part (b): an update call on the application thread against the poll thread answering requests (E2) ----------

def _b_run_one(name, prefix):
    """Same harness as C09 part (c); C10's oracle: after the call returned and the queue is drained, every node of the
    call is in a fresh or running session - its next config request is answered, and then its block request."""
    from . import c09

    sched = c09._c_run_one(name, prefix)
    gw = sched.gw
    nids, _ = c09.C_SCENARIOS[name]
    findings = []
    if sched.problem is None and not any(e[0] in ("pump-raised", "call-raised") for e in sched.log):
        cfg_req = words_to_hex(1, 0, 8, 0, 0x0102)
        for nid in nids:
            first = gw.logic(f"{nid};255;4;0;0;{cfg_req}")
            blk = gw.logic(f"{nid};255;4;0;2;" + words_to_hex(1, 1, 0))
            if blk is None:
                findings.append(("scheduled-node-not-served", f"node {nid} was scheduled by an update call for which firmware exists, yet after the call its config request got {'a reply' if first else 'no reply'} and its block request none (session lost while the poll thread answered a request during the call)"))
    sched.findings = findings
    return sched


B_RULE = (
    "application thread calling make_update for nodes that are in no session against the real poll thread answering their "
    "queued config/block requests; every schedule up to the preemption bound at line granularity of ota.py; afterwards, "
    "sequentially, every node of the call asks for the config and for block 0: both must be answered"
)


def run(tier):
    from .. import explore, tlc_replay
    from ..common import HarnessError, Report

    spec = C10Spec(tier)
    report = Report(PROP, "model_checking", tier)
    if tier == "quick":
        explore.run(spec, report, tier, 8, 400000, 600)
    else:
        explore.run(spec, report, tier, 12, 3000000, 1800)
    e1check.confirm_all(spec, report)
    from .. import tvp
    from . import c09

    part_b = tvp.run_scenarios(report, PROP, "c10b", _b_run_one, list(c09.C_SCENARIOS), 1 if tier == "quick" else 2, 240 if tier == "quick" else 900, B_RULE)
    # TLA+ cross-check: every edge of TLC's complete state graph is replayed on the real gateway
    tlc = tlc_replay.replay_all(report)
    cov = report.coverage
    cov["rule"] = RULE + "; plus the TLA+ model spec/OtaSession.tla: TLC computes its complete state graph and every edge is replayed on the implementation (reply kind and abstracted session state compared with the edge's target)"
    cov["tlc"] = tlc
    cov["threaded_update_call"] = part_b
    cov["schedules"] = part_b["schedules"]
    cov.setdefault("caps_hit", []).extend(part_b["caps_hit"])
    cov["traces_validated_against_impl"] = cov["transitions"] + tlc["edges_replayed_on_impl"]
    cov["evaluations"] = cov["transitions"] + tlc["edges_replayed_on_impl"]
    cov["distinct_nontrivial"] = cov["states"] + tlc["tlc_distinct_states"]
    report.assumptions = list(ASSUMPTIONS) + ["TLC 1.8.0 run with -deadlock -dump dot,actionlabels; the dump is parsed and must contain exactly the number of distinct states TLC reports"]
    return report.finish()


def replay(data):
    rep = data["replay"]
    if rep.get("kind") == "schedule":
        from .. import tvp

        return tvp.replay_schedule(_b_run_one, rep, PROP)
    if rep.get("kind") == "tlc":
        from .. import tlc_replay

        steps = tlc_replay.replay_path([tuple(x) for x in rep["path"]])
        for s in steps:
            print(s)
        print("TLC edge replay: compare with spec/OtaSession.tla; re-run './check C10' for the verdict")
        return run("quick")
    return e1check.replay_history(C10Spec("thorough"), data)
