"""C20, threaded kinds: real SerialGateway / TCPGateway (connect thread, reader thread, poll thread) on the
E2 scheduler with scripted fake devices; environment scripts up to a deviation bound, preemption bound 1."""
import collections
import itertools
import multiprocessing
import time
import types

from .. import sched as S
from ..common import NPROC, HarnessError, Violation, short

PROP = "C20"
R = 1.0  # reconnect timeout in virtual seconds


class FakeSerial:
    """What serial.serial_for_url returns (contract: DESIGN appendix B)."""

    def __init__(self, env, idx, args, kwargs):
        self.env = env
        self.idx = idx
        self.args = args
        self.timeout = kwargs.get("timeout")
        self.is_open = True
        self.rx = collections.deque()
        self.read_error = None
        self.cancelled = False
        self.fail_next_write = False

    @property
    def in_waiting(self):
        return sum(len(x) for x in self.rx)

    def cancel_read(self):
        self.cancelled = True

    def read(self, size=1):
        import serial

        if not self.is_open:
            raise serial.PortNotOpenError()
        sched = S.ACTIVE
        sched.block(lambda: bool(self.rx) or self.read_error is not None or not self.is_open or self.cancelled, ("serial.read", self.idx))
        if self.read_error is not None:
            err, self.read_error = self.read_error, None
            raise err
        if self.cancelled:
            self.cancelled = False
            return b""
        if not self.is_open:
            return b""
        return self.rx.popleft()

    def write(self, data):
        import serial

        sched = S.ACTIVE
        sched.point(("serial.write", self.idx))
        if not self.is_open:
            raise serial.PortNotOpenError()
        if self.fail_next_write:
            self.fail_next_write = False
            self.env.log.append(("write-failed", self.idx, sched.now))
            raise serial.SerialException("write failed (harness)")
        self.env.log.append(("write", self.idx, sched.now, bytes(data)))
        return len(data)

    def close(self):
        sched = S.ACTIVE
        if sched is not None:
            sched.point(("serial.close", self.idx))
        self.is_open = False


class FakeSocket:
    def __init__(self, env, idx):
        self.env = env
        self.idx = idx
        self.closed = False
        self.rx = collections.deque()
        self.peer_closed = False
        self.reset = False
        self.fail_next_send = False

    def setblocking(self, flag):
        pass

    def fileno(self):
        if self.closed:
            return -1
        return 1000 + self.idx

    def sendall(self, data):
        sched = S.ACTIVE
        sched.point(("sock.sendall", self.idx))
        if self.closed:
            raise OSError("sendall on closed socket")
        if self.fail_next_send:
            self.fail_next_send = False
            self.env.log.append(("write-failed", self.idx, sched.now))
            raise BrokenPipeError("broken pipe (harness)")
        self.env.log.append(("write", self.idx, sched.now, bytes(data)))

    def recv(self, size):
        if self.reset:
            raise ConnectionResetError("reset by peer (harness)")
        if self.rx:
            return self.rx.popleft()[:size]
        return b""

    def close(self):
        sched = S.ACTIVE
        if sched is not None:
            sched.point(("sock.close", self.idx))
        self.closed = True


class Env:
    """Scripted environment of one execution."""

    def __init__(self, kind, connect_answers, actions):
        self.kind = kind
        self.connect_answers = list(connect_answers)
        self.actions = list(actions)
        self.log = []
        self.devices = []
        self.attempts = []

    # -- device factories (patched into the library's namespaces) ----------------------------

    def serial_for_url(self, *args, **kwargs):
        import serial

        sched = S.ACTIVE
        sched.point(("connect-attempt",))
        self.attempts.append(sched.now)
        answer = self.connect_answers.pop(0) if self.connect_answers else "ok"
        self.log.append(("attempt", sched.now, answer))
        if answer == "refuse":
            raise serial.SerialException("could not open port (harness)")
        dev = FakeSerial(self, len(self.devices), args, kwargs)
        self.devices.append(dev)
        return dev

    def create_connection(self, address, timeout=None):
        import socket

        sched = S.ACTIVE
        sched.point(("connect-attempt",))
        self.attempts.append(sched.now)
        answer = self.connect_answers.pop(0) if self.connect_answers else "ok"
        self.log.append(("attempt", sched.now, answer))
        if answer == "refuse":
            raise ConnectionRefusedError("refused (harness)")
        if answer == "timeout":
            sched.sleep(timeout or 0.0, ("connect-timeout",))
            raise socket.timeout("timed out (harness)")
        dev = FakeSocket(self, len(self.devices))
        self.devices.append(dev)
        return dev

    def select(self, rlist, wlist, xlist, timeout=None):
        """select(2) on fake sockets: a connected socket is always writable; returns at once when something is ready,
        otherwise blocks (virtual time) for the timeout - for ever with timeout None - like the real call."""
        def ready():
            for sock in list(rlist) + list(wlist) + list(xlist):
                if sock.closed:
                    raise ValueError("file descriptor cannot be a negative integer (-1)")
            return [sock for sock in rlist if (sock.rx or sock.peer_closed or sock.reset)], list(wlist), []

        out = ready()
        if out[0] or out[1] or out[2]:
            return out
        sched = S.ACTIVE

        def something():
            try:
                r = ready()
            except ValueError:
                return True
            return bool(r[0] or r[1] or r[2])

        sched.block(something, ("select.wait",), timeout=timeout)
        return ready()


def run_one(kind, connect_answers, actions, prefix):
    import serial

    import mysensors.gateway_serial as gs
    import mysensors.gateway_tcp as gt

    S.install_library_shims()
    env = Env(kind, connect_answers, actions)
    sched = S.Scheduler(prefix, trace_files=(), horizon=6000)
    clock = types.SimpleNamespace(sleep=S.coop_sleep, time=S.vtime)
    if kind == "serial":
        gs.serial = types.SimpleNamespace(serial_for_url=env.serial_for_url, SerialException=serial.SerialException, threaded=serial.threaded, tools=serial.tools)
        gs.time = clock
        gw = gs.SerialGateway("/dev/ttyVERIF", timeout=0.25, reconnect_timeout=R, protocol_version="2.2")
    else:
        import socket as _socket

        gt.socket = types.SimpleNamespace(create_connection=env.create_connection, timeout=_socket.timeout)
        gt.select = types.SimpleNamespace(select=env.select)
        gt.time = clock
        gw = gt.TCPGateway("198.51.100.9", timeout=0.25, reconnect_timeout=R, protocol_version="2.2")
    gw.on_conn_made = lambda g: env.log.append(("made", S.vtime(), g is gw))
    slow = bool(env.actions) and env.actions[0][0] == "slow-callbacks"
    if slow:
        env.actions.pop(0)
    env.slow = slow

    def on_lost(g, exc):
        env.log.append(("lost", S.vtime(), type(exc).__name__ if exc else None, g is gw))
        if slow:
            S.coop_sleep(0.2 * R)  # a user callback that takes its time (logging, notifying, ...)

    gw.on_conn_lost = on_lost
    S.PUMP_TASKS[0] = gw.tasks
    env.gw = gw

    def link_up():
        proto = gw.tasks.transport.protocol
        return proto is not None and proto.transport is not None

    def body():
        gw.start()
        if env.actions and env.actions[0][0] == "immediate":
            env.actions.pop(0)  # the next action follows start() at once
        else:
            sched.sleep(0.3 * R, ("env.pause",))  # let the connect / poll threads get going
        for act in env.actions:
            name = act[0]
            if name in ("read-error", "bytes", "send", "send-write-error", "peer-close", "reset"):
                # these need an established link; wait for it (bounded in virtual time)
                sched.block(link_up, ("env.wait-link",), timeout=6 * R)
                if not link_up():
                    env.log.append(("env-skipped", name, sched.now))
                    continue
            dev = env.devices[-1] if env.devices else None
            env.log.append(("env", name, sched.now))
            if name == "read-error":
                if kind == "serial":
                    dev.read_error = serial.SerialException("device reports readiness to read but returned no data (harness)")
                else:
                    dev.reset = True
                sched.point(("env.read-error",))
            elif name == "bytes":
                dev.rx.append(b"0;255;3;0;2;2.3.2\n")
                sched.point(("env.bytes",))
            elif name == "peer-close":
                dev.peer_closed = True
                sched.point(("env.peer-close",))
            elif name == "send":
                gw.tasks.add_job(str, "1;0;1;0;2;1\n")
                sched.block(lambda: not gw.tasks.queue, ("env.wait-sent",), timeout=2 * R)
            elif name == "send-write-error":
                if kind == "serial":
                    dev.fail_next_write = True
                else:
                    dev.fail_next_send = True
                gw.tasks.add_job(str, "1;0;1;0;2;1\n")
                sched.block(lambda: not gw.tasks.queue, ("env.wait-sent",), timeout=2 * R)
            elif name == "wait":
                sched.sleep(act[1], ("env.wait",))
            elif name == "disconnect":
                gw.tasks.transport.disconnect()
            elif name == "stop":
                gw.stop()
                env.log.append(("stop-returned", sched.now))
            if name not in ("stop", "wait"):
                # give the library's threads virtual time to react before the next environment action
                sched.sleep(0.3 * R, ("env.pause",))
        # after the script: let virtual time pass so that anything still alive shows itself
        sched.sleep(5 * R, ("env.settle",))
        env.log.append(("settled", sched.now, [t.name for t in sched.threads[1:] if t.alive]))
        # release whatever is still blocked so that the execution can end
        gw.tasks._stop_event.set()
        for dev in env.devices:
            if kind == "serial":
                dev.is_open = False
            else:
                dev.closed = True
        tr = gw.tasks.transport
        tr.protocol = None

    sched.run(body, real_timeout=60.0)
    return sched, env


def judge(kind, env, sched):
    out = []
    info = collections.Counter()
    log = env.log
    label = f"{kind}-threaded"
    if sched.problem == "deadlock" and not sched.threads[0].alive:
        # the script finished; what remains are library threads blocked for good (e.g. a connect thread
        # waiting for a reader thread that died because stop() raced with a successful connect). They
        # cannot write, call back or dial any more, so the statement does not judge them: informational.
        info["library_threads_blocked_forever_after_script"] += 1
    elif sched.problem in ("deadlock", "horizon"):
        out.append((sched.problem, "", f"execution ended in {sched.problem}; log tail {short(log[-4:], 300)}"))
        return out, info
    for e in sched.log:
        if e[0] == "thread-exception":
            info[f"thread-exception:{e[2]}@{e[4]}"] += 1
            if e[1].endswith("_poll_queue"):
                out.append(("pump-died", f"{e[2]}@{e[4]}", f"the poll thread died: {e[2]}: {e[3]}"))
    made = [e for e in log if e[0] == "made"]
    lost = [e for e in log if e[0] == "lost"]
    links = len(env.devices)
    # a connect that was still in flight when the user called stop()/disconnect(): the device was opened, but the link
    # was never handed to the protocol (no connection-made), so it is not an established connection of the statement
    in_flight = 0
    ok_attempts = [i for i, e in enumerate(log) if e[0] == "attempt" and e[2] == "ok"]
    for n, i in enumerate(ok_attempts):
        nxt = ok_attempts[n + 1] if n + 1 < len(ok_attempts) else len(log)
        seg = log[i + 1 : nxt]
        called = [j for j, e in enumerate(log[:i]) if e[0] == "env" and e[1] in ("stop", "disconnect")]
        returned = [j for j, e in enumerate(log[:i]) if e[0] == "stop-returned"]
        during_stop = bool(called) and log[called[-1]][1] == "stop" and (not returned or returned[-1] < called[-1])
        after_stop = bool(returned)  # the dial itself is judged by the connect-after-stop clause (known finding / violation)
        if not any(e[0] == "made" for e in seg) and (any(e[0] == "env" and e[1] in ("stop", "disconnect") for e in seg) or during_stop or after_stop):
            in_flight += 1
    if in_flight:
        info["connect_in_flight_at_stop_or_disconnect"] += 1
        links -= in_flight
    stop_t = next((e[1] for e in log if e[0] == "stop-returned"), None)
    stop_idx = next((i for i, e in enumerate(log) if e[0] == "stop-returned"), None)
    settled = next((e for e in log if e[0] == "settled"), None)
    if len(made) != links:
        out.append(("on_conn_made-count", "", f"{links} link(s) established, connection-made callback fired {len(made)} time(s); log {short(log, 400)}"))
    if any(not e[2] for e in made):
        out.append(("on_conn_made-arg", "", "connection-made callback did not receive the gateway"))
    # every link is over by the time things have settled after stop(); each end is reported once
    if stop_t is not None and len(lost) != links:
        out.append(("on_conn_lost-count", "", f"{links} link(s) ended (stopped gateway), connection-lost callback fired {len(lost)} time(s); log {short(log, 400)}"))
    if stop_idx is not None:
        after = log[stop_idx + 1 :]
        for e in after:
            if e[0] == "write":
                out.append(("write-after-stop", "", f"a write happened after stop() returned: {short(log, 400)}"))
            if e[0] in ("made", "lost"):
                out.append(("callback-after-stop", e[0], f"a connection callback fired after stop() returned: {short(log, 400)}"))
            if e[0] == "attempt":
                late = [x for x in after if x[0] == "attempt"]
                quiet = not any(x[0] in ("made", "lost", "write") for x in after)
                if len(late) == 1 and abs(e[1] - stop_t) < 1e-9 and quiet:
                    # one dial at the very instant stop() returned and nothing after it: the connect thread had already
                    # evaluated 'while transport.protocol' when stop() cleared it (known finding, see known_findings.json)
                    out.append(("connect-after-stop", "decided-before-stop", f"one connect attempt at the instant stop() returned (the connect thread had passed its loop condition before stop() ran): {short(log, 400)}"))
                else:
                    out.append(("connect-after-stop", "", f"a connect attempt was made after stop() returned: {short(log, 400)}"))
        if settled and settled[2]:
            info["library_threads_alive_5R_after_stop"] += 1
    # supervision: after an unrequested loss, attempts at t0, t0+R, ... until one succeeds
    env_events = [e for e in log if e[0] == "env"]
    requested = any(e[1] in ("disconnect", "stop") for e in env_events)
    for e in env_events:
        if e[1] in ("read-error", "send-write-error") and not any(x[1] in ("disconnect", "stop") and x[2] <= e[2] for x in env_events):
            t_loss = e[2]
            horizon = min([x[2] for x in env_events if x[1] in ("disconnect", "stop") and x[2] > t_loss] + [10 ** 9])
            later = [a for a in env.attempts if a >= t_loss - 1e-9]
            info["unrequested_losses"] += 1
            limit = t_loss + (2.0 * R + 0.5 if kind == "tcp" and e[1] == "read-error" else 0.1) + (0.2 * R if getattr(env, "slow", False) else 0.0)
            if not [a for a in later if a <= limit] and horizon > limit:
                out.append(("no-reconnect", e[1], f"link lost ({e[1]}) at t={t_loss} but no connect attempt follows by t={limit}: attempts {env.attempts}; log {short(log, 300)}"))
    # retry interval after a refused attempt
    atts = [e for e in log if e[0] == "attempt"]
    for a, b in zip(atts, atts[1:]):
        if a[2] == "refuse" and (stop_t is None or b[1] < stop_t):
            info["retry_intervals_checked"] += 1
            if abs((b[1] - a[1]) - R) > 1e-6 and not any(x[0] == "env" and x[1] in ("read-error", "send-write-error") and a[1] <= x[2] <= b[1] for x in log):
                out.append(("retry-interval", "", f"attempt refused at t={a[1]}, next attempt at t={b[1]} (configured {R})"))
    if len(env.devices) >= 2:
        info["runs_with_reconnect"] += 1
    # a link that was established (device opened, connection-made reported) and never reported lost must be usable:
    # the script's next link action waited 6 R for it
    for e in log:
        if e[0] == "env-skipped" and len(made) > len([x for x in lost if x[1] <= e[2]]) and not any(x[0] == "env" and x[1] in ("disconnect", "stop") and x[2] <= e[2] for x in log):
            opened_before = [d for d in env.devices]
            out.append(("link-unusable-after-connect", "", f"{len(made)} connection(s) made, {len(lost)} lost, yet at t={e[2]} the gateway had no usable transport for 6 R ({e[1]} skipped); log {short(log, 400)}"))
            break
    return out, info


def scripts(kind, tier):
    """Environment scripts with at most 2 (quick) / 3 (thorough) deviations from 'connect ok, link quiet'."""
    max_dev = 2 if tier == "quick" else 3
    acts = [("read-error",), ("send",), ("send-write-error",), ("bytes",), ("disconnect",)]
    if kind == "tcp":
        acts.append(("peer-close",))
    out = []
    answers = [[], ["refuse"], ["refuse", "refuse"], ["ok", "refuse"], ["ok", "refuse", "refuse"]] + ([["timeout"], ["ok", "timeout"]] if kind == "tcp" else [])
    for ans in answers:
        for n in range(0, 3):
            for seq in itertools.product(acts, repeat=n):
                dev = sum(1 for a in ans if a != "ok") + sum(1 for a in seq if a[0] != "send")
                if ans[:1] == ["ok"] and not any(a[0] in ("read-error", "send-write-error", "peer-close") for a in seq):
                    continue  # the later answers would never be asked for
                if dev > max_dev:
                    continue
                tail = [("wait", 2.5 * R)] if ans[:1] == ["ok"] else []
                out.append((ans, list(seq) + tail + [("stop",)]))
        # a second answer sequence: the reconnect attempt after a loss is refused once
    out.append((["ok", "refuse"], [("read-error",), ("wait", 2.5 * R), ("stop",)]))
    out.append((["ok", "refuse", "refuse"], [("send-write-error",), ("wait", 3.5 * R), ("stop",)]))
    out.append(([], [("stop",), ("wait", 3 * R)]))
    out.append(([], [("immediate",), ("stop",), ("wait", 3 * R)]))
    out.append((["refuse"], [("immediate",), ("stop",), ("wait", 3 * R)]))
    out.append((["refuse", "refuse", "refuse"], [("wait", 1.5 * R), ("stop",), ("wait", 3 * R)]))
    # the user's connection-lost callback takes its time (0.2 R) while the library reconnects
    for first in (("read-error",), ("send-write-error",)) + ((("peer-close",),) if kind == "tcp" else ()):
        out.append(([], [("slow-callbacks",), first, ("send",), ("wait", 1.5 * R), ("stop",)]))
        out.append(([], [("slow-callbacks",), first, ("bytes",), ("send",), ("stop",)]))
    return out


def _explore(args):
    kind, script_idx, answers, actions, bound, deadline = args[:6]
    roots, limit = (args[6], args[7]) if len(args) > 6 else (None, None)
    res = S.Result()
    found = {}
    info = collections.Counter()

    def make(prefix):
        sched, env = run_one(kind, answers, actions, prefix)
        sched.env = env
        return sched

    def check(sched):
        viols, inf = judge(kind, sched.env, sched)
        info.update(inf)
        for clause, detail, msg in viols:
            sig = f"{kind}-threaded|{clause}" + (f"|{detail}" if detail else "")
            npre = S.preemptions(sched.points, len(sched.points))
            if sig not in found or npre < found[sig][2]:
                found[sig] = (msg, list(sched.choices), npre, answers, actions)

    complete, leftover = S.explore(make, check, bound, res, deadline=deadline, roots=roots, expand_limit=limit)
    if limit is None:
        leftover = []
    return kind, script_idx, complete, res.executions, res.points, len(res.distinct_points), found, dict(info), leftover


def run_part(report, tier):
    bound = 1 if tier == "quick" else 2
    deadline = time.time() + (400 if tier == "quick" else 2400)
    jobs = []
    for kind in ("serial", "tcp"):
        for i, (ans, acts) in enumerate(scripts(kind, tier)):
            jobs.append((kind, i, ans, acts, bound, deadline))
    ctx = multiprocessing.get_context("fork")
    total = collections.Counter()
    info = collections.Counter()
    incomplete = 0
    by_key = {(j[0], j[1]): j for j in jobs}
    incomplete_scripts = set()

    def absorb(kind, idx, complete, execs, points, distinct, found, inf):
        total["executions"] += execs
        total["points"] += points
        info.update(inf)
        if not complete:
            incomplete_scripts.add((kind, idx))
        for sig, (msg, choices, npre, answers, actions) in found.items():
            report.add(Violation(PROP, sig, f"{msg} (schedule with {npre} preemption(s))", {"kind": "threaded", "check": PROP, "gateway": kind, "answers": answers, "actions": [list(a) for a in actions], "choices": choices}))

    with ctx.Pool(NPROC) as pool:
        # first a bounded number of executions per script, then the unexplored sub-trees spread over all workers
        second = []
        for kind, idx, complete, execs, points, distinct, found, inf, leftover in pool.imap_unordered(_explore, [j + (None, 40) for j in jobs], chunksize=1):
            total[f"scripts_{kind}"] += 1
            absorb(kind, idx, complete, execs, points, distinct, found, inf)
            nparts = min(16, max(1, len(leftover) // 4))
            for part in (leftover[i::nparts] for i in range(nparts)):
                if part:
                    second.append(by_key[(kind, idx)] + (part, None))
        for kind, idx, complete, execs, points, distinct, found, inf, _ in pool.imap_unordered(_explore, second, chunksize=1):
            absorb(kind, idx, complete, execs, points, distinct, found, inf)
    incomplete = len(incomplete_scripts)
    for v in list(report.violations.values()):
        rep = v.replay or {}
        if rep.get("kind") != "threaded":
            continue
        a = _replay_sigs(rep)
        b = _replay_sigs(rep)
        if a != b:
            raise HarnessError(f"threaded schedule for {v.signature} is not reproducible")
        if v.signature not in a:
            raise HarnessError(f"threaded schedule for {v.signature} did not reproduce")
    return {
        "preemption_bound": bound,
        "environment_scripts": {"serial": total["scripts_serial"], "tcp": total["scripts_tcp"]},
        "executions": total["executions"],
        "scheduling_decisions": total["points"],
        "scripts_not_completed": incomplete,
        "informational": {k: v for k, v in info.items()},
        "rule": "real SerialGateway/TCPGateway started with start(): connect thread, reader thread (real serial.threaded.ReaderThread / TCPTransport) and poll thread run under the E2 scheduler against scripted fake devices; environment scripts = connect answers (ok/refused/timeout) x up to two link events (read error, write error on the next send, bytes, peer close, user disconnect) followed by stop(); scheduling points at lock/event operations, fake device calls, sleeps, thread start/join",
    }


def _replay_sigs(rep):
    sched, env = run_one(rep["gateway"], list(rep["answers"]), [tuple(a) for a in rep["actions"]], list(rep["choices"]))
    viols, _ = judge(rep["gateway"], env, sched)
    return sorted(f"{rep['gateway']}-threaded|{c}" + (f"|{d}" if d else "") for c, d, _ in viols)


def replay(data):
    rep = data["replay"]
    sigs = _replay_sigs(rep)
    print(f"script {rep['answers']} / {rep['actions']}: violations {sigs}")
    if data["signature"] in sigs:
        print(f"VIOLATION property={PROP} replay=<replayed>")
        return 1
    print("did not reproduce on the current tree")
    return 0


# -- (b) watchdog of the threaded TCP gateway on the virtual clock -------------------------------------

PROBE = b"0;255;3;0;2;\n"
VERSION_REPLY = b"0;255;3;0;2;2.3.2\n"


class _ProbeSocket(FakeSocket):
    """Fake peer that answers I_VERSION probe i after latency pattern[i] (None = never)."""

    def __init__(self, env, idx, pattern):
        super().__init__(env, idx)
        self.pattern = pattern
        self.pending = []  # (due time, bytes)
        self.probes = []
        self.answers = []

    def sendall(self, data):
        sched = S.ACTIVE
        if self.closed:
            raise OSError("sendall on closed socket")
        if bytes(data) == PROBE:
            i = len(self.probes)
            self.probes.append(sched.now)
            lat = self.pattern[i] if i < len(self.pattern) else None
            if lat is not None:
                self.pending.append((sched.now + lat, VERSION_REPLY))
        self.env.log.append(("write", self.idx, sched.now, bytes(data)))

    def due(self):
        now = S.vtime()
        return [p for p in self.pending if p[0] <= now + 1e-9]

    def recv(self, size):
        due = self.due()
        if due:
            self.pending.remove(due[0])
            self.answers.append(S.vtime())
            return due[0][1]
        return b""


def watchdog_threaded(pattern):
    import socket as _socket

    # ("refused", k, lat...) = the first k connect attempts are refused before the link comes up
    refused = 0
    if pattern and pattern[0] == "refused":
        refused, pattern = pattern[1], tuple(pattern[2:])
    made = []

    import mysensors.gateway_tcp as gt

    S.install_library_shims()
    env = Env("tcp", [], [])
    sched = S.Scheduler([], trace_files=(), horizon=60000)
    socks = []

    def create_connection(address, timeout=None):
        env.attempts.append(sched.now)
        if len(env.attempts) <= refused:
            raise ConnectionRefusedError("connection refused (harness)")
        sock = _ProbeSocket(env, len(socks), pattern if not socks else [])
        socks.append(sock)
        made.append(sched.now)
        return sock

    def select(rlist, wlist, xlist, timeout=None):
        def ready():
            for sock in list(rlist) + list(wlist) + list(xlist):
                if sock.closed:
                    raise ValueError("closed")
            return [sock for sock in rlist if sock.due()], list(wlist), []

        out = ready()
        if out[0] or out[1] or out[2]:
            return out
        # nothing ready: the real select blocks (for ever with timeout None) until the peer sends something

        def something():
            try:
                r = ready()
            except ValueError:
                return True
            return bool(r[0] or r[1] or r[2])

        # pending answers become due with the passage of virtual time: wake up at the next due time at the latest
        nxt = min([p[0] for sock in rlist for p in sock.pending] + [float("inf")])
        wait = timeout
        if nxt != float("inf"):
            wait = max(0.0, nxt - S.vtime()) if timeout is None else min(timeout, max(0.0, nxt - S.vtime()))
        S.ACTIVE.block(something, ("select.wait",), timeout=wait)
        return ready()

    gt.socket = types.SimpleNamespace(create_connection=create_connection, timeout=_socket.timeout)
    gt.select = types.SimpleNamespace(select=select)
    gt.time = types.SimpleNamespace(sleep=S.coop_sleep, time=S.vtime)
    gw = gt.TCPGateway("198.51.100.9", reconnect_timeout=R, protocol_version="2.2")
    gw.on_conn_lost = lambda g, exc: env.log.append(("lost", S.vtime(), type(exc).__name__ if exc else None))
    S.PUMP_TASKS[0] = gw.tasks

    def body():
        gw.start()
        horizon = (len(pattern) + 6 + refused) * R
        sched.block(lambda: len(socks) >= 2, ("env.wait-redial",), timeout=horizon)
        env.log.append(("observed", sched.now))
        sched.sleep(0.3 * R, ("env.pause",))  # let the new link come up before stopping
        gw.stop()
        sched.sleep(2 * R, ("env.settle",))
        gw.tasks._stop_event.set()
        for s_ in socks:
            s_.closed = True

    sched.run(body, real_timeout=120.0)
    first = socks[0]
    lost = [e for e in env.log if e[0] == "lost"]
    drop = lost[0][1] if lost and len(socks) >= 2 else None
    return {"probes": first.probes, "answers": first.answers, "drop": drop, "redial": env.attempts[refused + 1 : refused + 2], "made": made[0] if made else 0.0, "problem": sched.problem, "points": len(sched.points)}


def check_watchdog_threaded(chunk):
    import logging

    logging.disable(logging.CRITICAL)
    viols, stats, samples = [], collections.Counter(), []
    for pattern in chunk:
        stats["latency_patterns_threaded"] += 1
        rep = {"kind": "watchdog-threaded", "check": PROP, "pattern": list(pattern)}
        res = watchdog_threaded(pattern)
        if pattern and pattern[0] == "refused":
            stats["patterns_after_refused_attempts"] += 1
            pattern = tuple(pattern[2:])
        stats["scheduling_points"] += res["points"]
        if res["problem"] and res["problem"] != "deadlock":
            viols.append(Violation(PROP, f"watchdog|threaded|{res['problem']}", f"latencies {pattern}: execution ended in {res['problem']}", rep))
            continue
        all_fast = all(lat is not None and lat < R for lat in pattern)
        # an answer that reaches the socket at the very instant of the drop has not been processed by the
        # poll thread yet (lines are queued for it): it does not count as heard
        heard = [a for a in res["answers"] if res["drop"] is None or a < res["drop"] - 1e-6]
        last_heard = max([res.get("made", 0.0)] + heard)  # silence counts from the moment the link came up
        if res["drop"] is None:
            viols.append(Violation(PROP, "watchdog|threaded|silent-link-kept", f"latencies {pattern}: the link was never dropped although answers stopped", rep))
            continue
        stats["drops"] += 1
        silence = res["drop"] - last_heard
        if len(res["probes"]) <= len(pattern) and all_fast:
            viols.append(Violation(PROP, "watchdog|threaded|dropped-although-answered", f"latencies {pattern} (all < R): link dropped at t={res['drop']:.2f}", rep))
        elif silence < 2 * R - 1e-6 or silence > 3 * R + 0.1:
            viols.append(Violation(PROP, "watchdog|threaded|drop-time", f"latencies {pattern}: silent since t={last_heard:.2f}, dropped at t={res['drop']:.2f} ({silence / R:.2f} R of silence, expected 2..3 R)", rep))
        if not res["redial"] or res["redial"][0] - res["drop"] > 0.05:
            viols.append(Violation(PROP, "watchdog|threaded|late-redial", f"latencies {pattern}: dropped at {res['drop']}, re-dialled at {res['redial']}", rep))
        if not samples:
            samples.append(["threaded", list(pattern), res["drop"]])
    return viols, stats, samples
