"""C15 - periodic saving heals itself (E3 fault positions on fake Timer / virtual loop; E2 concurrent change)."""
import multiprocessing
import os
import shutil

from ..canon import project_tree
from ..common import NPROC, HarnessError, Report, Violation, short
from ..fsfault import CrashNow, FaultFS, describe
from ..vloop import VLoop
from ..world import World, cleanup_process_scratch, install_shims
from .c12 import base_dir, fresh, make_gateway

PROP = "C15"

# state changes between the ticks (each batch makes the state dirty)
BATCHES = [
    ["1;255;0;0;17;2.2", "1;0;0;0;3;lamp", "1;255;3;0;11;a rather long sketch name of node one"],
    ["1;0;1;0;2;1"],
    ["1;255;3;0;11;s"],  # the serialisation gets SHORTER here: a temp file left by a failed save is longer than the next one
    ["2;255;0;0;17;2.2", "1;255;3;0;0;66"],
    ["1;0;1;0;2;0", "2;1;0;0;6;t", "2;1;1;0;0;19.5"],
]
NTICKS = 4


class LoadFailed(Exception):
    """A fresh load of the directory raised: reported as a finding by the scenario that asked for it."""


def load_copy(directory, fmt):
    """Load the directory as a fresh process would, on a copy (the live gateway keeps its files)."""
    copy = os.path.join(base_dir(), "c15-copy")
    shutil.rmtree(copy, ignore_errors=True)
    shutil.copytree(directory, copy)
    path = os.path.join(copy, f"p.{fmt}")
    gw = make_gateway(path, [])
    try:
        gw.tasks.persistence.safe_load_sensors()
    except Exception as exc:  # pylint: disable=broad-except
        raise LoadFailed(f"{type(exc).__name__}: {exc}") from exc
    finally:
        tree = project_tree(gw.sensors)
        shutil.rmtree(copy, ignore_errors=True)
    return tree


class SyncRun:
    """Threaded flavour: real SerialGateway + SyncTasks, Timer replaced by a fake fired by tick()."""

    flavour = "sync"

    def __init__(self, fmt, initial_fs=None):
        self.fmt = fmt
        # the very first scheduled save runs inside start_persistence(); it can be faulted like any other
        if initial_fs is not None:
            initial_fs.install()
        try:
            self.world = World({"version": "2.2", "persistence": fmt, "cb": None})
        finally:
            if initial_fs is not None:
                initial_fs.uninstall()
        self.gw = self.world.gw
        self.dir = self.world.dir

    def feed(self, lines):
        for line in lines:
            self.world.apply(("rx", line))

    def tick(self, fs=None):
        """Fire the scheduled save; returns exception escaping the timer function (or None)."""
        if self.world.live_timer() is None:
            return "no-timer"
        if fs:
            fs.install()
        try:
            obs = self.world.apply(("tick",))
        finally:
            if fs:
                fs.uninstall()
        return obs.exc

    def schedule_alive(self):
        return self.world.live_timer() is not None

    def stop(self):
        obs_exc = None
        try:
            self.gw.stop()
        except Exception as exc:  # pylint: disable=broad-except
            obs_exc = exc
        return obs_exc

    def close(self):
        self.world.close()


class AsyncRun:
    """asyncio flavour: real AsyncSerialGateway + AsyncTasks on the virtual loop."""

    flavour = "async"

    def __init__(self, fmt, initial_fs=None, kind="serial"):
        from mysensors.gateway_serial import AsyncSerialGateway
        from mysensors.gateway_tcp import AsyncTCPGateway

        install_shims()
        self.fmt = fmt
        self.dir = fresh("c15-async")
        self.loop = VLoop()
        if kind == "tcp":
            # the link of this flavour is a plain asyncio socket transport (no .serial attribute)
            self.gw = AsyncTCPGateway("127.0.0.1", persistence=True, persistence_file=os.path.join(self.dir, f"p.{fmt}"), protocol_version="2.2")
        else:
            self.gw = AsyncSerialGateway("/dev/verif", persistence=True, persistence_file=os.path.join(self.dir, f"p.{fmt}"), protocol_version="2.2")
        self.start_task = self.loop.start(self.gw.start_persistence())
        self.loop.complete_executor(0)  # safe_load_sensors
        if initial_fs is not None:
            initial_fs.install()
        try:
            self.loop.complete_executor(0)  # first scheduled save
        finally:
            if initial_fs is not None:
                initial_fs.uninstall()
        if not self.start_task.done() or self.start_task.exception():
            raise HarnessError("async start_persistence did not complete")

    def feed(self, lines):
        for line in lines:
            self.loop.call(self.gw.logic, line)
        self.loop.run_ready()

    def tick(self, fs=None):
        if not self.loop.fire_next_timer():
            return "no-timer"
        if not self.loop.executor_jobs:
            return "no-save-started"
        if fs:
            fs.install()
        try:
            err = self.loop.complete_executor(0)
        finally:
            if fs:
                fs.uninstall()
        return err

    def schedule_alive(self):
        # the save task must be alive and waiting on its sleep timer
        return bool(self.loop.pending_timers()) and self.gw.tasks._cancel_save is not None and not self._save_task_done()

    def _save_task_done(self):
        import asyncio

        for task in asyncio.all_tasks(self.loop):
            if "save_on_schedule" in repr(task.get_coro()):
                return task.done()
        return True

    def stop(self):
        task = self.loop.start(self.gw.stop())
        guard = 0
        # executor jobs are completed only while stop() is still waiting: what is left when stop() has returned has not
        # happened yet as far as the caller of stop() can tell (the file is read right after)
        while not task.done() and self.loop.executor_jobs and guard < 5:
            self.loop.complete_executor(0)
            guard += 1
        if not task.done():
            return HarnessError("stop() did not finish")
        if task.cancelled():
            import asyncio

            return asyncio.CancelledError("stop() ended with CancelledError")
        return task.exception()

    def close(self):
        self.loop.shutdown()
        shutil.rmtree(self.dir, ignore_errors=True)


def record_initial_ops(flavour, fmt):
    fs = FaultFS("record")
    run = (SyncRun if flavour == "sync" else AsyncRun)(fmt, fs)
    run.close()
    return list(fs.ops)


def record_ops(flavour, fmt):
    """Operation logs of the four scheduled saves of an unfaulted run."""
    run = (SyncRun if flavour == "sync" else AsyncRun)(fmt)
    logs = []
    try:
        run.feed(BATCHES[0])
        for t in range(NTICKS):
            fs = FaultFS("record")
            run.tick(fs)
            logs.append(list(fs.ops))
            run.feed(BATCHES[t + 1])
    finally:
        run.close()
    return logs


def run_scenario(scn):
    flavour, fmt, tick_at, op_at = scn[:4]
    second = scn[4] if len(scn) > 4 else None  # a second transient fault, in the save of the following tick
    install_shims()
    viols = []
    replay = {"kind": "fault", "check": PROP, "scenario": list(scn)}
    reached = False
    if tick_at == -1:
        fs0 = FaultFS("fail", op_at)
        try:
            run = (SyncRun if flavour == "sync" else AsyncRun)(fmt, fs0)
        except Exception as exc:  # pylint: disable=broad-except
            # the very first save is run by start_persistence() itself; an I/O error there may surface to the
            # caller, but it must not be a different kind of failure
            if isinstance(exc, HarnessError):
                raise
            return ([Violation(PROP, f"start-persistence-raises|{flavour}|{type(exc).__name__}", f"{scn}: start_persistence() raised {type(exc).__name__}: {short(str(exc))}", replay)] if not isinstance(exc, OSError) else []), fs0.injected
        reached = fs0.injected
        viols0 = []
        if fs0.injected:
            op = fs0.ops[op_at] if op_at < len(fs0.ops) else ("?",)
            if not run.gw.tasks.persistence.need_save:
                viols0.append(Violation(PROP, f"dirty-flag-cleared|{flavour}|initial|{op[0]}", f"{scn}: the initial save failed at {describe(op)} but the state is not marked unsaved", replay))
            if not run.schedule_alive():
                viols0.append(Violation(PROP, f"schedule-stopped|{flavour}|initial|{op[0]}", f"{scn}: the initial save failed at {describe(op)} and no periodic save is armed afterwards", replay))
                run.close()
                return viols0, reached
        viols.extend(viols0)
    else:
        run = (SyncRun if flavour == "sync" else AsyncRun)(fmt)
    try:
        run.feed(BATCHES[0])
        saved_tree = ()  # what the last successful save wrote (the start-up save wrote the empty network)
        for t in range(NTICKS):
            current = project_tree(run.gw.sensors)
            if t == tick_at:
                fs = FaultFS("fail", op_at)
                err = run.tick(fs)
                reached = fs.injected
                op = fs.ops[op_at] if op_at < len(fs.ops) else ("?",)
                where = f"{flavour}|{op[0]}"
                if err in ("no-timer", "no-save-started"):
                    viols.append(Violation(PROP, f"schedule-dead-before-fault|{where}", f"{scn}: {err}", replay))
                    break
                if not fs.injected:
                    saved_tree = current
                else:
                    loaded = load_copy(run.dir, fmt)
                    if loaded != saved_tree and loaded != current:
                        viols.append(Violation(PROP, f"file-not-loadable-after-failed-save|{where}", f"{scn}: after the save failed at {describe(op)} a fresh load yields neither the previously saved nor the current state", replay))
                    if loaded == current:
                        saved_tree = current
                    if not run.gw.tasks.persistence.need_save:
                        viols.append(Violation(PROP, f"dirty-flag-cleared|{where}", f"{scn}: save failed at {describe(op)} but the state is no longer marked unsaved", replay))
                    if not run.schedule_alive():
                        viols.append(Violation(PROP, f"schedule-stopped|{where}", f"{scn}: after the save failed at {describe(op)} no further periodic save is armed", replay))
                        # no point in continuing: the next tick cannot happen
                        stop_err = run.stop()
                        if stop_err is not None:
                            viols.append(Violation(PROP, f"stop-raises-after-failed-save|{where}|{type(stop_err).__name__}", f"{scn}: stop() raised {type(stop_err).__name__}: {short(str(stop_err))}", replay))
                        return viols, reached
            elif second is not None and t == tick_at + 1 and tick_at >= 0:
                fs = FaultFS("fail", second)
                err = run.tick(fs)
                op = fs.ops[second] if second < len(fs.ops) else ("?",)
                where = f"{flavour}|second-fault|{op[0]}"
                if err in ("no-timer", "no-save-started"):
                    viols.append(Violation(PROP, f"schedule-stopped|{flavour}|later-tick", f"{scn}: tick {t}: {err}", replay))
                    break
                loaded = load_copy(run.dir, fmt)
                if not fs.injected:
                    if loaded != current:
                        viols.append(Violation(PROP, f"next-save-not-current|{flavour}|after-fault", f"{scn}: after tick {t} a fresh load does not yield the then-current state", replay))
                    saved_tree = current
                else:
                    reached = True
                    if loaded != saved_tree and loaded != current:
                        viols.append(Violation(PROP, f"file-not-loadable-after-failed-save|{where}", f"{scn}: after a second consecutive save failed at {describe(op)} a fresh load yields neither the previously saved nor the current state", replay))
                    if loaded == current:
                        saved_tree = current
                    if not run.gw.tasks.persistence.need_save:
                        viols.append(Violation(PROP, f"dirty-flag-cleared|{where}", f"{scn}: second consecutive save failed at {describe(op)} but the state is no longer marked unsaved", replay))
                    if not run.schedule_alive():
                        viols.append(Violation(PROP, f"schedule-stopped|{where}", f"{scn}: after the second consecutive failed save no further periodic save is armed", replay))
                        run.stop()
                        return viols, reached
            else:
                err = run.tick(None)
                if err in ("no-timer", "no-save-started"):
                    viols.append(Violation(PROP, f"schedule-stopped|{flavour}|later-tick", f"{scn}: tick {t}: {err}", replay))
                    break
                if err is not None:
                    viols.append(Violation(PROP, f"unfaulted-save-raises|{flavour}", f"{scn}: tick {t} without fault raised {err}", replay))
                    break
                loaded = load_copy(run.dir, fmt)
                if loaded != current:
                    viols.append(Violation(PROP, f"next-save-not-current|{flavour}" + ("|after-fault" if t == tick_at + 1 else ""), f"{scn}: after tick {t} a fresh load does not yield the then-current state", replay))
                saved_tree = current
                if run.gw.tasks.persistence.need_save:
                    viols.append(Violation(PROP, f"dirty-after-successful-save|{flavour}", f"{scn}: tick {t}", replay))
            run.feed(BATCHES[t + 1])
        final = project_tree(run.gw.sensors)
        stop_err = run.stop()
        if stop_err is not None:
            viols.append(Violation(PROP, f"stop-raises|{flavour}|{type(stop_err).__name__}", f"{scn}: stop() raised {type(stop_err).__name__}: {short(str(stop_err))}", replay))
        else:
            loaded = load_copy(run.dir, fmt)
            if loaded != final:
                viols.append(Violation(PROP, f"stop-did-not-persist|{flavour}", f"{scn}: after stop() a fresh load does not yield the final state", replay))
    finally:
        run.close()
    return viols, reached


def _work(chunk):
    out = []
    for scn in chunk:
        try:
            viols, reached = run_scenario(scn)
        except LoadFailed as exc:
            cause = type(exc.__cause__).__name__ if exc.__cause__ is not None else "?"
            viols, reached = [Violation(PROP, f"fresh-load-raises|{scn[0]}|{cause}", f"{scn}: after the (failed) save a fresh start-up load raised {exc}", {"kind": "fault", "check": PROP, "scenario": list(scn)})], True
        except HarnessError as exc:
            viols, reached = [Violation(PROP, "HARNESS", str(exc), {"scenario": list(scn)})], False
        out.append((scn, viols, reached))
    cleanup_process_scratch()
    return out


def scenarios(tier):
    install_shims()
    scns = []
    oplens = {}
    for flavour in ("sync", "async"):
        for fmt in ("json", "pickle"):
            logs = record_ops(flavour, fmt)
            oplens[f"{flavour}/{fmt}"] = [len(x) for x in logs]
            init_ops = record_initial_ops(flavour, fmt)
            for k in range(len(init_ops)):
                scns.append((flavour, fmt, -1, k))
            for t, ops in enumerate(logs):
                idxs = range(len(ops))
                if False and tier == "quick" and len(ops) > 30:
                    # all non-write operations, and every 6th write
                    idxs = [i for i, op in enumerate(ops) if op[0] != "write" or i % 6 == 0]
                for k in idxs:
                    scns.append((flavour, fmt, t, k))
            # two consecutive failing saves (tick 1 and tick 2): first fault at one operation of each kind, second fault
            # at every operation index the following save can have (its log depends on what the first fault left behind)
            ops = logs[1]
            firsts = []
            kinds = set()
            for i, op in enumerate(ops):
                key = (op[0], os.path.basename(str(op[1])) if len(op) > 1 else "")
                if key not in kinds:
                    kinds.add(key)
                    firsts.append(i)
            longest = max(len(x) for x in logs) + 2
            seconds = range(longest) if tier == "thorough" else sorted(set(firsts) | set(range(longest - 8, longest)) | set(range(0, 4)))
            for k in firsts:
                for k2 in seconds:
                    scns.append((flavour, fmt, 1, k, k2))
    cleanup_process_scratch()
    return scns, oplens


def run(tier):
    report = Report(PROP, "fault_enumeration", tier)
    scns, oplens = scenarios(tier)
    chunks = [scns[i::NPROC * 4] for i in range(NPROC * 4)]
    reached = 0
    ctx = multiprocessing.get_context("fork")
    with ctx.Pool(NPROC) as pool:
        for out in pool.imap(_work, [c for c in chunks if c]):
            for scn, viols, hit in out:
                reached += 1 if hit else 0
                for v in viols:
                    if v.signature == "HARNESS":
                        raise HarnessError(v.message)
                report.add_all(viols)
    cleanup_process_scratch()
    for v in list(report.violations.values()):
        again = _work([tuple(v.replay["scenario"])])[0][1]
        if not any(a.signature == v.signature for a in again):
            raise HarnessError(f"{v.signature} did not reproduce")
    cleanup_process_scratch()
    part_b = {}
    try:
        from . import c15b

        part_b = c15b.run_part(report, tier)
    except ImportError:
        part_b = {"concurrent_change_part": "not built in this revision"}
    cov = report.coverage
    cov["evaluations"] = len(scns) + part_b.get("schedules", 0)
    cov["distinct_nontrivial"] = reached + part_b.get("schedules_with_concurrent_change", 0)
    cov["rule"] = (
        "(a) scenario = flavour (threaded with fake Timer / asyncio on the virtual loop) x format x tick position 0..3 x "
        "index of the file operation of that tick's save that fails once with EIO; after the failing tick: a fresh load "
        "of a copy of the directory, the dirty flag, whether a next save is armed; then the remaining ticks, and stop(); "
        "non-trivial = the injected operation was reached. (b) see coverage.part_b"
    )
    cov["exhaustive"] = True
    cov["operations_per_save"] = oplens
    cov["part_b"] = part_b
    cov["samples"] = [list(s) for s in scns[:: max(1, len(scns) // 8)]][:8]
    report.assumptions = [
        "transient fault = OSError(EIO) raised by exactly one file operation of one scheduled save",
        "threaded flavour: threading.Timer replaced by a recorded fake; asyncio flavour: virtual loop, run_in_executor completed by the harness (the executor job is atomic here; interleavings are part (b))",
        "quick tier samples every 6th write operation of the JSON save (all other operations are enumerated); thorough enumerates every operation",
    ]
    return report.finish()


def replay(data):
    rep = data["replay"]
    if rep.get("kind") == "schedule":
        from . import c15b

        return c15b.replay(data)
    scn = tuple(rep["scenario"])
    viols = _work([scn])[0][1]
    cleanup_process_scratch()
    sigs = sorted(v.signature for v in viols)
    print(f"scenario {scn}: violations {sigs}")
    if data["signature"] in sigs:
        print(f"VIOLATION property={PROP} replay=<replayed>")
        return 1
    print("did not reproduce on the current tree")
    return 0
