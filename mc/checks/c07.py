"""C07 - nothing is sent to a sleeping node outside its wake window (E1, model_checking)."""
from .. import alpha, e1check, explore
from ..monitors import GatewayMonitor

PROP = "C07"
NAMES = [
    "PA", "PB", "CA0", "CA1", "CB0", "SA0", "SB0", "RA0", "RB0", "RAx", "CFG", "CFGB", "TIM",
    "WA", "WB", "HBA", "GWR", "IDR", "FCA", "FRA0",
]
PAIR_NAMES = ["WA", "WB", "RA0", "RB0", "CFG", "CFGB", "SA0", "RAx"]


HIGH_IDS = {1: 254, 2: 253}


class C07Spec(explore.Spec):
    prop = PROP

    def __init__(self, tier="quick"):
        self.tier = tier
        self.has_at_state = tier == "thorough"

    def configs(self, tier):
        out = [{"version": v, "cb": None} for v in ("2.0", "2.1", "2.2")]
        if tier == "thorough":
            out += [{"version": "2.2", "cb": None, "flavour": "async"}, {"version": "2.1", "cb": None, "transport": "mqtt"}]
        # persistence on: a periodic save, or a stop + fresh start (nodes restored from the file), at any position
        out += [{"version": "2.2", "cb": None, "persistence": fmt, "depth": 3 if tier == "quick" else 4} for fmt in ("pickle", "json")]
        # boundary node ids: A = 254 (the highest valid id), B = 253 - the same alphabet, renamed
        out.append({"version": "2.2" if tier == "quick" else "2.0", "cb": None, "ids": "high", "depth": 4 if tier == "quick" else 5})
        if tier == "thorough":
            out.append({"version": "2.2", "cb": None, "ids": "high", "depth": 5})
        # link faults: a write fails (the line is lost, the link is replaced) while traffic is held back / released
        out.append({"version": "2.2", "cb": None, "focus": "link", "depth": 5 if tier == "quick" else 7})
        return out

    def alphabet(self, cfg):
        evs = self._alphabet(cfg)
        return alpha.remap_nodes(evs, HIGH_IDS) if cfg.get("ids") == "high" else evs

    def roots(self, cfg):
        roots = self._roots(cfg)
        return [tuple(alpha.remap_nodes(r, HIGH_IDS)) for r in roots] if cfg.get("ids") == "high" else roots

    def _alphabet(self, cfg):
        v = cfg["version"]
        if cfg.get("focus") == "link":
            return alpha.events(v, ["WA", "CFG", "RA0", "CFGB", "WB"]) + [("set", 1, 0, 2, "0"), ("writefail",), ("reconnect",)]
        evs = []
        seen = set()
        for ev in alpha.events(v, NAMES):
            if ev not in seen:
                seen.add(ev)
                evs.append(ev)
        evs += [
            ("set", 1, 0, 2, "0"),
            ("set", 2, 0, 2, "1"),
            ("set", 1, 7, 2, "1"),
            ("fw", 1, 1, 1, "F1"),
            ("set", 1, 0, 2, "", (("msg_type", 2),)),  # the controller asks the node for a value (msg_type keyword)
            alpha.rx(f"1;255;0;0;18;{v}"),  # the node presents itself as a repeater
        ]
        if cfg.get("persistence"):
            evs += [("tick",), ("restart",)]
        return evs

    def _roots(self, cfg):
        t = alpha.lines(cfg["version"])
        return [
            (),
            # A asleep with one reported value and one withheld reply; B known and awake
            tuple(alpha.rx(t[n]) for n in ("PA", "CA0", "SA0", "WA", "CFG", "PB", "CB0")),
        ]

    def new_monitor(self, cfg):
        return GatewayMonitor(PROP, cfg["version"], {"sleep", "replies"})

    def at_state(self, world, monitor, hist, cfg):
        """Thorough: the sync-pump schedule dimension - two lines queued, then one drain."""
        t = alpha.lines(cfg["version"])
        viols = []
        world.close()
        if len(hist) > 9 or cfg.get("persistence") or cfg.get("focus") or cfg.get("ids"):
            return viols  # the pair schedule is applied in every state up to this history length
        for a in PAIR_NAMES:
            for b in PAIR_NAMES:
                ev = ("rx2", t[a], t[b])
                w, mon, _, _ = explore.build(self, cfg, hist)
                try:
                    mon.stats.clear()
                    obs = w.apply(ev)
                    vs = mon.step(w, ev, obs) or []
                    for v in vs:
                        v.replay = {"kind": "history", "check": PROP, "cfg": cfg, "history": list(hist) + [ev]}
                    viols.extend(vs)
                    monitor.stats.update(mon.stats)
                finally:
                    w.close()
        return viols


RULE = (
    "transition = one event (inbound line, controller call) executed on a real gateway from a distinct "
    "canonical state; every string handed to transport.send is judged by the invariant 'destination asleep "
    "before the causing step => cause is a wake-up announcement of that node (stream excepted)' and the "
    "step's emission list is compared with the reference model; distinct = canonical state key"
)
ASSUMPTIONS = [
    "serial-like sync world: real SerialGateway + SyncTransport with a fake connection object; the pump is the real _poll_queue body run to idle after every event",
    "cause of an emitted line = the event whose processing returned or enqueued it (jobs tagged at add_job)",
    "node id 255 never presents itself as a sleeping node",
    "histories bounded by the completed depth reported in coverage.completed_depth, 2 nodes, 2 children; node ids 1/2 and, in one configuration, 254/253",
]


def run(tier):
    spec = C07Spec(tier)
    if tier == "quick":
        return e1check.run_e1(spec, tier, depth=5, state_budget=42000, time_budget=600, rule=RULE, assumptions=ASSUMPTIONS)
    return e1check.run_e1(spec, tier, depth=6, state_budget=150000, time_budget=1100, rule=RULE, assumptions=ASSUMPTIONS)


def replay(data):
    return e1check.replay_history(C07Spec("quick"), data)
