"""C06 - node ids are never handed out twice (E1 on real persistence files, model_checking)."""
import collections

from .. import alpha, e1check, explore
from ..monitors import GatewayMonitor

PROP = "C06"


class C06Spec(explore.Spec):
    prop = PROP
    use_snapshots = False  # worlds own files and timers: always replay

    def __init__(self, tier="quick"):
        self.tier = tier

    def configs(self, tier):
        out = []
        for fmt in ("json", "pickle"):
            for v in ("1.4", "2.2"):
                out.append({"version": v, "persistence": fmt, "cb": None})
        return out

    def alphabet(self, cfg):
        v = cfg["version"]
        evs = [
            alpha.rx("255;255;3;0;3;"),
            alpha.rx("1;255;3;0;3;"),
            alpha.rx(f"1;255;0;0;17;{v}"),
            alpha.rx(f"2;255;0;0;17;{v}"),
            alpha.rx(f"253;255;0;0;17;{v}"),
            alpha.rx(f"254;255;0;0;17;{v}"),
            alpha.rx("1;255;3;0;0;57"),
            alpha.rx("1;255;3;0;6;0"),
            ("tick",),
            ("tickfail", "fsync"),
            ("restart",),
        ]
        if self.tier == "thorough":
            evs += [alpha.rx(f"0;255;0;0;17;{v}"), alpha.rx(f"255;255;0;0;17;{v}"), alpha.rx("1;0;0;0;3;d"), alpha.rx("1;0;1;0;2;1")]
        return evs

    def new_monitor(self, cfg):
        return GatewayMonitor(PROP, cfg["version"], {"ids", "exc"})


RULE = (
    "transition = one event (id request, presentation, other traffic, periodic save tick, clean stop + restart on the "
    "same file) executed on a real gateway with real persistence files; every id response is checked against the "
    "history variable 'ids handed out so far' and the node set known before the step; distinct = canonical state key "
    "incl. file digests, dirty flag, armed timer and the history variable"
)
ASSUMPTIONS = [
    "real SerialGateway with persistence on a scratch directory (RAM disk); threading.Timer replaced by a recorded fake fired by TICK",
    "RESTART = stop(), new gateway object on the same path, start_persistence()",
    "no demand that a response is sent (the statement allows silence)",
]


def run(tier):
    from ..common import HarnessError, Report

    spec = C06Spec(tier)
    report = Report(PROP, "model_checking", tier)
    if tier == "quick":
        explore.run(spec, report, tier, 6, 300000, 150)
    else:
        explore.run(spec, report, tier, 8, 2000000, 1800)
    for viol in list(report.violations.values()):
        if viol.replay and viol.replay.get("kind") == "history" and not explore.confirm(spec, viol):
            raise HarnessError(f"violation {viol.signature} did not reproduce from its replay data")
    part_b = run_part_b(report, tier)
    cov = report.coverage
    cov["rule"] = RULE
    cov["evaluations"] = cov["transitions"] + part_b["schedules"]
    cov["distinct_nontrivial"] = cov["states"]
    cov["stop_vs_id_request"] = part_b
    report.assumptions = list(ASSUMPTIONS)
    return report.finish()


def replay(data):
    rep = data["replay"]
    if rep.get("kind") == "schedule":
        sched, handed, restored = _b_run_one(rep["fmt"], list(rep["choices"]))
        print(f"ids handed out on the open connection: {handed}; nodes restored after restart: {restored}")
        if any(i not in restored for i in handed):
            print(f"VIOLATION property={PROP} replay=<replayed>")
            return 1
        print("did not reproduce on the current tree")
        return 0
    return e1check.replay_history(C06Spec("thorough"), data)


# -- part (b): a clean stop against a concurrent id request (E2) -------------------------------------


def _b_run_one(fmt, prefix):
    import os
    import shutil

    from .. import sched as S
    from ..common import scratch_root
    from .c16 import Conn

    from mysensors.gateway_serial import SerialGateway

    S.install_library_shims()
    del S.TIMERS[:]
    d = os.path.join(scratch_root(), f"verif-pymys-{os.getpid()}", "c06b")
    shutil.rmtree(d, ignore_errors=True)
    os.makedirs(d)
    path = os.path.join(d, f"p.{fmt}")
    gw = SerialGateway("/dev/verif", persistence=True, persistence_file=path, protocol_version="2.2")
    gw.logic("1;255;0;0;17;2.2")
    gw.start_persistence()
    sched = S.Scheduler(prefix, trace_files=("mysensors/task.py",), horizon=4000)
    log = sched.log
    conn = Conn(log, "c0")
    gw.tasks.transport.protocol.connection_made(conn)
    S.PUMP_TASKS[0] = gw.tasks
    proto = gw.tasks.transport.protocol

    def body():
        def pump():
            try:
                gw.tasks._poll_queue()
            except Exception as exc:  # pylint: disable=broad-except
                log.append(("pump-raised", type(exc).__name__, str(exc)[:100]))

        def reader():
            proto.handle_line("255;255;3;0;3;")

        def stopper():
            try:
                gw.stop()
            except Exception as exc:  # pylint: disable=broad-except
                log.append(("stop-raised", type(exc).__name__, str(exc)[:100]))

        t0 = sched.spawn(pump, "pump")
        t1 = sched.spawn(reader, "reader")
        t2 = sched.spawn(stopper, "stopper")
        sched.block(lambda: not t1.alive and not t2.alive, ("join",))
        gw.tasks._stop_event.set()
        sched.block(lambda: not t0.alive, ("join-pump",))

    sched.run(body)
    handed = []
    for e in log:
        if e[0] == "write":
            parts = e[2].decode().strip().split(";")
            if len(parts) == 6 and parts[2] == "3" and parts[4] == "4":
                handed.append(int(parts[5]))
    gw2 = SerialGateway("/dev/verif", persistence=True, persistence_file=path, protocol_version="2.2")
    gw2.tasks.persistence.safe_load_sensors()
    restored = sorted(gw2.sensors)
    shutil.rmtree(d, ignore_errors=True)
    return sched, handed, restored


def _b_part(args):
    from .. import sched as S

    fmt, bound, roots, deadline, limit = args
    res = S.Result()
    found = {}
    outcomes = collections.Counter()

    def make(prefix):
        sched, handed, restored = _b_run_one(fmt, prefix)
        sched.result = (handed, restored)
        return sched

    def check(sched):
        handed, restored = sched.result
        outcomes[(tuple(handed), tuple(restored))] += 1
        for pid in handed:
            if pid not in restored:
                npre = S.preemptions(sched.points, len(sched.points))
                sig = "stop-vs-id-request|id-response-sent-but-not-persisted"
                if sig not in found or npre < found[sig][2]:
                    found[sig] = (f"id {pid} was handed out on the open connection while stop() was running, but is not in the file after the restart (restored nodes {restored})", list(sched.choices), npre, fmt)
        for e in sched.log:
            if e[0] in ("pump-raised", "stop-raised"):
                found.setdefault(f"stop-vs-id-request|{e[0]}|{e[1]}", (f"{e[0]}: {e[1]}: {e[2]}", list(sched.choices), 0, fmt))

    complete, leftover = S.explore(make, check, bound, res, deadline=deadline, roots=roots, expand_limit=limit)
    return fmt, complete, leftover, res.executions, res.points, found, dict((str(k), v) for k, v in outcomes.items())


def run_part_b(report, tier):
    import multiprocessing
    import time

    from ..common import NPROC

    bound = 1 if tier == "quick" else 2
    deadline = time.time() + (60 if tier == "quick" else 900)
    ctx = multiprocessing.get_context("fork")
    total = collections.Counter()
    outcomes = collections.Counter()
    complete_all = True
    with ctx.Pool(NPROC) as pool:
        parts = []
        for fmt, complete, leftover, execs, points, found, outs in pool.imap(_b_part, [(f, bound, None, deadline, 20) for f in ("json", "pickle")]):
            total["executions"] += execs
            total["points"] += points
            outcomes.update(outs)
            complete_all = complete_all and complete
            _b_add(report, found)
            chunks = [leftover[i::8] for i in range(8)]
            parts += [(fmt, bound, ch, deadline, None) for ch in chunks if ch]
        for fmt, complete, leftover, execs, points, found, outs in pool.imap_unordered(_b_part, parts):
            total["executions"] += execs
            total["points"] += points
            outcomes.update(outs)
            complete_all = complete_all and complete
            _b_add(report, found)
    return {"preemption_bound": bound, "schedules": total["executions"], "scheduling_decisions": total["points"], "complete": complete_all, "distinct_outcomes(ids handed out, nodes restored)": dict(outcomes),
            "rule": "pump thread (real _poll_queue) + a reader thread delivering one id request + a thread calling stop(), all schedules up to the preemption bound at line granularity of task.py; then a fresh start on the same file: every id that left the gateway on the open connection must be a known node after the restart"}


def _b_add(report, found):
    from ..common import Violation

    for sig, (msg, choices, npre, fmt) in found.items():
        report.add(Violation(PROP, sig, f"{msg} ({fmt}, schedule with {npre} preemption(s))", {"kind": "schedule", "check": PROP, "fmt": fmt, "choices": choices}))
