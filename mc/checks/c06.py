"""C06 - node ids are never handed out twice (E1 on real persistence files, model_checking)."""
from .. import alpha, e1check, explore
from ..monitors import GatewayMonitor

PROP = "C06"


class C06Spec(explore.Spec):
    prop = PROP
    use_snapshots = False  # worlds own files and timers: always replay

    def __init__(self, tier="quick"):
        self.tier = tier

    def configs(self, tier):
        out = []
        for fmt in ("json", "pickle"):
            for v in ("1.4", "2.2"):
                out.append({"version": v, "persistence": fmt, "cb": None})
        return out

    def alphabet(self, cfg):
        v = cfg["version"]
        evs = [
            alpha.rx("255;255;3;0;3;"),
            alpha.rx("1;255;3;0;3;"),
            alpha.rx(f"1;255;0;0;17;{v}"),
            alpha.rx(f"2;255;0;0;17;{v}"),
            alpha.rx(f"253;255;0;0;17;{v}"),
            alpha.rx(f"254;255;0;0;17;{v}"),
            alpha.rx("1;255;3;0;0;57"),
            alpha.rx("1;255;3;0;6;0"),
            ("tick",),
            ("restart",),
        ]
        if self.tier == "thorough":
            evs += [alpha.rx(f"0;255;0;0;17;{v}"), alpha.rx(f"255;255;0;0;17;{v}"), alpha.rx("1;0;0;0;3;d"), alpha.rx("1;0;1;0;2;1")]
        return evs

    def new_monitor(self, cfg):
        return GatewayMonitor(PROP, cfg["version"], {"ids", "exc"})


RULE = (
    "transition = one event (id request, presentation, other traffic, periodic save tick, clean stop + restart on the "
    "same file) executed on a real gateway with real persistence files; every id response is checked against the "
    "history variable 'ids handed out so far' and the node set known before the step; distinct = canonical state key "
    "incl. file digests, dirty flag, armed timer and the history variable"
)
ASSUMPTIONS = [
    "real SerialGateway with persistence on a scratch directory (RAM disk); threading.Timer replaced by a recorded fake fired by TICK",
    "RESTART = stop(), new gateway object on the same path, start_persistence()",
    "no demand that a response is sent (the statement allows silence)",
]


def run(tier):
    spec = C06Spec(tier)
    if tier == "quick":
        return e1check.run_e1(spec, tier, depth=6, state_budget=300000, time_budget=150, rule=RULE, assumptions=ASSUMPTIONS)
    return e1check.run_e1(spec, tier, depth=8, state_budget=2000000, time_budget=1800, rule=RULE, assumptions=ASSUMPTIONS)


def replay(data):
    return e1check.replay_history(C06Spec("thorough"), data)
