"""C06 - node ids are never handed out twice (E1 on real persistence files, model_checking)."""
import collections
import itertools

from .. import alpha, e1check, explore
from ..monitors import GatewayMonitor

PROP = "C06"


class C06Spec(explore.Spec):
    prop = PROP
    use_snapshots = False  # worlds own files and timers: always replay

    def __init__(self, tier="quick"):
        self.tier = tier

    def configs(self, tier):
        out = []
        for fmt in ("json", "pickle"):
            for v in ("1.4", "2.2"):
                out.append({"version": v, "persistence": fmt, "cb": None})
            # a smart-sleep node with a parked reply while saves, id requests and restarts happen (own, shallower config)
            out.append({"version": "2.2", "persistence": fmt, "cb": None, "sleeper": True, "depth": 4 if tier == "quick" else 6})
        # the persistence file named without a directory part (the library's default is 'mysensors.pickle')
        out.append({"version": "2.2", "persistence": "pickle", "cb": None, "relpath": True, "depth": 4 if tier == "quick" else 6})
        return out

    def alphabet(self, cfg):
        v = cfg["version"]
        evs = [
            alpha.rx("255;255;3;0;3;"),
            alpha.rx("1;255;3;0;3;"),
            alpha.rx(f"1;255;0;0;17;{v}"),
            alpha.rx(f"2;255;0;0;17;{v}"),
            alpha.rx(f"253;255;0;0;17;{v}"),
            alpha.rx(f"254;255;0;0;17;{v}"),
            alpha.rx(f"255;255;0;0;17;{v}"),
            alpha.rx("1;255;3;0;0;57"),
            alpha.rx("1;255;3;0;6;0"),
            ("tick",),
            ("tickfail", "fsync"),
            ("restart",),
        ]
        if self.tier == "thorough":
            evs += [alpha.rx(f"0;255;0;0;17;{v}"), alpha.rx("1;0;0;0;3;d"), alpha.rx("1;0;1;0;2;1")]
        return evs

    def roots(self, cfg):
        out = [()]
        if cfg.get("sleeper"):
            # node 1 uses smart sleep and has a reply parked for it when the saves and the restart happen
            return [(alpha.rx("1;255;0;0;17;2.2"), alpha.rx("1;0;0;0;3;d"), alpha.rx("1;255;3;0;32;500"), alpha.rx("1;255;3;0;6;0"))]
        return out

    def new_monitor(self, cfg):
        return GatewayMonitor(PROP, cfg["version"], {"ids", "exc"})


RULE = (
    "transition = one event (id request, presentation, other traffic, periodic save tick, clean stop + restart on the "
    "same file) executed on a real gateway with real persistence files; every id response is checked against the "
    "history variable 'ids handed out so far' and the node set known before the step; distinct = canonical state key "
    "incl. file digests, dirty flag, armed timer and the history variable"
)
ASSUMPTIONS = [
    "real SerialGateway with persistence on a scratch directory (RAM disk); threading.Timer replaced by a recorded fake fired by TICK",
    "RESTART = stop(), new gateway object on the same path, start_persistence()",
    "no demand that a response is sent (the statement allows silence)",
]


def run(tier):
    from ..common import HarnessError, Report

    spec = C06Spec(tier)
    report = Report(PROP, "model_checking", tier)
    if tier == "quick":
        explore.run(spec, report, tier, 6, 300000, 600)
    else:
        explore.run(spec, report, tier, 8, 2000000, 1200)
    e1check.confirm_all(spec, report)
    part_b = run_part_b(report, tier)
    part_d = run_part_d(report, tier)
    cov_sync = dict(report.coverage)
    sub = Report(PROP, "model_checking", tier)
    aspec = C06AsyncSpec()
    explore.run(aspec, sub, tier, 9 if tier == "quick" else 12, 300000, 400 if tier == "quick" else 900)
    e1check.confirm_all(aspec, sub)
    for viol in sub.violations.values():
        report.add(viol)
    report.coverage.clear()
    report.coverage.update(cov_sync)
    cov = report.coverage
    cov["asyncio_restarts"] = {"states": sub.coverage["states"], "transitions": sub.coverage["transitions"], "completed_depth": sub.coverage["completed_depth"], "witnesses": sub.coverage["witnesses"],
                               "rule": "asyncio gateway on the virtual loop: id requests, other traffic, timers, completion of executor job 0 or 1 (load and save run in the executor; every completion order), stop + new gateway on the same file (up to 3 lives); history variable = ids handed out"}
    cov["rule"] = RULE
    cov["evaluations"] = cov["transitions"] + part_b["schedules"] + part_d["schedules"] + part_d["asyncio_runner_runs"]
    cov["distinct_nontrivial"] = cov["states"]
    cov["stop_vs_id_request"] = part_b
    cov["cli_runner_restart"] = part_d
    report.assumptions = list(ASSUMPTIONS)
    return report.finish()


def replay(data):
    rep = data["replay"]
    if rep.get("kind") == "history" and rep.get("cfg", {}).get("flavour") == "async":
        return e1check.replay_history(C06AsyncSpec(), data)
    if rep.get("kind") == "cli-async":
        earlier, handed, errors, _ = _d_async_one(rep["fmt"], rep["order"])
        print(f"ids of life 1: {earlier}; handed out after the restart through the asyncio runner: {handed}; errors: {errors}")
        if errors or any(i in earlier for i in handed):
            print(f"VIOLATION property={PROP} replay=<replayed>")
            return 1
        print("did not reproduce on the current tree")
        return 0
    if rep.get("kind") == "schedule" and rep["fmt"].endswith("/cli"):
        sched, earlier, handed = _d_run_one(rep["fmt"].split("/")[0], list(rep["choices"]))
        print(f"ids of life 1: {earlier}; handed out after the restart through the runner: {handed}")
        if any(i in earlier for i in handed):
            print(f"VIOLATION property={PROP} replay=<replayed>")
            return 1
        print("did not reproduce on the current tree")
        return 0
    if rep.get("kind") == "schedule":
        sched, handed, restored = _b_run_one(rep["fmt"], list(rep["choices"]))
        print(f"ids handed out on the open connection: {handed}; nodes restored after restart: {restored}")
        if any(i not in restored for i in handed):
            print(f"VIOLATION property={PROP} replay=<replayed>")
            return 1
        print("did not reproduce on the current tree")
        return 0
    return e1check.replay_history(C06Spec("thorough"), data)


# -- part (b): a clean stop against a concurrent id request (E2) -------------------------------------


def _b_run_one(fmt, prefix):
    import os
    import shutil

    from .. import sched as S
    from ..common import scratch_root
    from .c16 import Conn

    from mysensors.gateway_mqtt import MQTTGateway
    from mysensors.gateway_serial import SerialGateway

    fmt, kind = (fmt.split("/") + ["serial"])[:2]
    S.install_library_shims()
    del S.TIMERS[:]
    d = os.path.join(scratch_root(), f"verif-pymys-{os.getpid()}", "c06b")
    shutil.rmtree(d, ignore_errors=True)
    os.makedirs(d)
    path = os.path.join(d, f"p.{fmt}")
    sched = S.Scheduler(prefix, trace_files=("mysensors/task.py",), horizon=4000)
    log = sched.log
    if kind == "mqtt":
        # the MQTT transport has no connection to close: a published command has left the gateway
        def pub(topic, payload, qos, retain):
            levels = topic.split("/")[-5:]
            log.append(("write", "mqtt", (";".join(levels) + ";" + payload + "\n").encode()))

        gw = MQTTGateway(pub, lambda *a: None, in_prefix="in", out_prefix="out", persistence=True, persistence_file=path, protocol_version="2.2")
    else:
        gw = SerialGateway("/dev/verif", persistence=True, persistence_file=path, protocol_version="2.2")
    gw.logic("1;255;0;0;17;2.2")
    gw.start_persistence()
    if kind != "mqtt":
        conn = Conn(log, "c0")
        gw.tasks.transport.protocol.connection_made(conn)
    S.PUMP_TASKS[0] = gw.tasks

    class _P:
        @staticmethod
        def handle_line(line):
            if kind == "mqtt":
                gw.tasks.transport.recv("in/255/255/3/0/3", "", 0)
            else:
                gw.tasks.transport.protocol.handle_line(line)

    proto = _P

    def body():
        def pump():
            try:
                gw.tasks._poll_queue()
            except Exception as exc:  # pylint: disable=broad-except
                log.append(("pump-raised", type(exc).__name__, str(exc)[:100]))

        def reader():
            proto.handle_line("255;255;3;0;3;")

        def stopper():
            try:
                gw.stop()
            except Exception as exc:  # pylint: disable=broad-except
                log.append(("stop-raised", type(exc).__name__, str(exc)[:100]))

        # the poll thread is started the way the application starts it: gateway.start()
        if kind != "mqtt":
            gw.tasks.transport._connect = lambda tr: None  # the link is already up (fake connection)
        gw.start()
        t1 = sched.spawn(reader, "reader")
        t2 = sched.spawn(stopper, "stopper")
        sched.block(lambda: not t1.alive and not t2.alive, ("join",))
        gw.tasks._stop_event.set()
        sched.block(lambda: all(not t.alive for t in sched.threads[1:]), ("join-rest",))

    sched.run(body)
    handed = []
    for e in log:
        if e[0] == "write":
            parts = e[2].decode().strip().split(";")
            if len(parts) == 6 and parts[2] == "3" and parts[4] == "4":
                handed.append(int(parts[5]))
    gw2 = SerialGateway("/dev/verif", persistence=True, persistence_file=path, protocol_version="2.2")
    gw2.tasks.persistence.safe_load_sensors()
    if gw.tasks.queue:
        # lines still queued when stop() returned are simply never processed: not an issue for this check
        log.append(("left-in-queue", len(gw.tasks.queue)))
    restored = sorted(gw2.sensors)
    shutil.rmtree(d, ignore_errors=True)
    return sched, handed, restored


def _b_part(args):
    from .. import sched as S

    fmt, bound, roots, deadline, limit = args
    res = S.Result()
    found = {}
    outcomes = collections.Counter()

    def make(prefix):
        sched, handed, restored = _b_run_one(fmt, prefix)
        sched.result = (handed, restored)
        return sched

    def check(sched):
        handed, restored = sched.result
        outcomes[(tuple(handed), tuple(restored))] += 1
        for pid in handed:
            if pid not in restored:
                npre = S.preemptions(sched.points, len(sched.points))
                sig = "stop-vs-id-request|id-response-sent-but-not-persisted"
                if sig not in found or npre < found[sig][2]:
                    found[sig] = (f"id {pid} was handed out on the open connection while stop() was running, but is not in the file after the restart (restored nodes {restored})", list(sched.choices), npre, fmt)
        for e in sched.log:
            if e[0] in ("pump-raised", "stop-raised"):
                found.setdefault(f"stop-vs-id-request|{e[0]}|{e[1]}", (f"{e[0]}: {e[1]}: {e[2]}", list(sched.choices), 0, fmt))

    complete, leftover = S.explore(make, check, bound, res, deadline=deadline, roots=roots, expand_limit=limit)
    return fmt, complete, leftover, res.executions, res.points, found, dict((str(k), v) for k, v in outcomes.items())


def run_part_b(report, tier):
    import multiprocessing
    import time

    from ..common import NPROC

    bound = 1 if tier == "quick" else 2
    deadline = time.time() + (240 if tier == "quick" else 900)
    ctx = multiprocessing.get_context("fork")
    total = collections.Counter()
    outcomes = collections.Counter()
    complete_all = True
    with ctx.Pool(NPROC) as pool:
        parts = []
        for fmt, complete, leftover, execs, points, found, outs in pool.imap(_b_part, [(f, bound, None, deadline, 20) for f in ("json", "pickle", "json/mqtt")]):
            total["executions"] += execs
            total["points"] += points
            outcomes.update(outs)
            complete_all = complete_all and complete
            _b_add(report, found)
            chunks = [leftover[i::8] for i in range(8)]
            parts += [(fmt, bound, ch, deadline, None) for ch in chunks if ch]
        for fmt, complete, leftover, execs, points, found, outs in pool.imap_unordered(_b_part, parts):
            total["executions"] += execs
            total["points"] += points
            outcomes.update(outs)
            complete_all = complete_all and complete
            _b_add(report, found)
    return {"preemption_bound": bound, "schedules": total["executions"], "scheduling_decisions": total["points"], "complete": complete_all, "distinct_outcomes(ids handed out, nodes restored)": dict(outcomes),
            "rule": "pump thread (real _poll_queue) + a reader thread delivering one id request + a thread calling stop(), all schedules up to the preemption bound at line granularity of task.py; then a fresh start on the same file: every id that left the gateway on the open connection must be a known node after the restart"}


def _b_add(report, found):
    from ..common import Violation

    for sig, (msg, choices, npre, fmt) in found.items():
        report.add(Violation(PROP, sig, f"{msg} ({fmt}, schedule with {npre} preemption(s))", {"kind": "schedule", "check": PROP, "fmt": fmt, "choices": choices}))


# -- part (d): restart through the command-line runner, with traffic waiting on the link (E2 / E4) --------
# mysensors.cli.helper.run_gateway / handle_async_gateway are how the pymysensors command line starts a gateway.
# The link may already have an id request waiting when the connection is made; the ids of the previous life are
# in the file. Threads: the runner (main), the connect thread, a reader delivering the waiting line, the pump.


def _d_run_one(fmt, prefix):
    import os
    import shutil
    import types

    from .. import sched as S
    from ..common import scratch_root
    from .c16 import Conn

    import mysensors.cli.helper as helper
    from mysensors.gateway_serial import SerialGateway

    S.install_library_shims()
    del S.TIMERS[:]
    d = os.path.join(scratch_root(), f"verif-pymys-{os.getpid()}", "c06d")
    shutil.rmtree(d, ignore_errors=True)
    os.makedirs(d)
    path = os.path.join(d, f"p.{fmt}")
    # life 1: two ids handed out, clean save
    gw1 = SerialGateway("/dev/verif", persistence=True, persistence_file=path, protocol_version="2.2")
    earlier = []
    for _ in range(2):
        reply = gw1.logic("255;255;3;0;3;")
        earlier.append(int(reply.strip().split(";")[5]))
    gw1.tasks.persistence.save_sensors()
    # life 2 through the runner
    sched = S.Scheduler(prefix, trace_files=("mysensors/task.py", "mysensors/cli/helper.py"), horizon=4000)
    log = sched.log
    gw = SerialGateway("/dev/verif", persistence=True, persistence_file=path, protocol_version="2.2")
    S.PUMP_TASKS[0] = gw.tasks
    state = {"reader": None}

    def fake_connect(transport):
        transport.protocol.connection_made(Conn(log, "c0"))

        def reader():
            transport.protocol.handle_line("255;255;3;0;3;")

        state["reader"] = sched.spawn(reader, "reader")

    gw.tasks.transport._connect = fake_connect

    def runner_sleep(_):
        # the runner idles until Ctrl-C: here until the waiting line was delivered and worked off
        sched.block(lambda: state["reader"] is not None and not state["reader"].alive and not gw.tasks.queue, ("idle",))
        raise KeyboardInterrupt

    real_time = helper.time
    helper.time = types.SimpleNamespace(sleep=runner_sleep)

    def body():
        try:
            helper.run_gateway(gw)
        except Exception as exc:  # pylint: disable=broad-except
            log.append(("runner-raised", type(exc).__name__, str(exc)[:100]))
        gw.tasks._stop_event.set()
        sched.block(lambda: all(not t.alive for t in sched.threads[1:]), ("join-rest",))

    try:
        sched.run(body)
    finally:
        helper.time = real_time
    handed = []
    for e in log:
        if e[0] == "write":
            parts = e[2].decode().strip().split(";")
            if len(parts) == 6 and parts[2] == "3" and parts[4] == "4":
                handed.append(int(parts[5]))
    shutil.rmtree(d, ignore_errors=True)
    return sched, earlier, handed


def _d_part(args):
    from .. import sched as S

    fmt, bound, deadline = args
    res = S.Result()
    found = {}
    outcomes = collections.Counter()

    def make(prefix):
        sched, earlier, handed = _d_run_one(fmt, prefix)
        sched.result = (earlier, handed)
        return sched

    def check(sched):
        earlier, handed = sched.result
        outcomes[(tuple(earlier), tuple(handed))] += 1
        for pid in handed:
            if pid in earlier or not 1 <= pid <= 254 or handed.count(pid) > 1:
                npre = S.preemptions(sched.points, len(sched.points))
                sig = "cli-runner-restart|id-handed-out-twice"
                if sig not in found or npre < found[sig][2]:
                    found[sig] = (f"life 1 handed out {earlier} and saved; after a restart through cli.helper.run_gateway an id request waiting on the link was answered with id {pid}", list(sched.choices), npre, fmt + "/cli")
        for e in sched.log:
            if e[0] in ("pump-raised", "runner-raised"):
                found.setdefault(f"cli-runner-restart|{e[0]}|{e[1]}", (f"{e[0]}: {e[1]}: {e[2]}", list(sched.choices), 0, fmt + "/cli"))

    complete, _ = S.explore(make, check, bound, res, deadline=deadline)
    return fmt, complete, res.executions, res.points, found, dict((str(k), v) for k, v in outcomes.items())


def _d_async_one(fmt, order):
    """asyncio runner: mysensors.cli.helper.handle_async_gateway on the virtual loop. The connection attempt is answered
    at once with a link that has an id request waiting; the environment choices are the order in which the pending
    events are taken - 'L' deliver the waiting line (enabled once the link is up), 'X' complete the oldest executor
    job (load / save). `order` is a string over {L, X}; events that are not enabled are skipped, the rest is FIFO."""
    import os
    import shutil

    from .. import vloop
    from ..common import scratch_root

    import mysensors.cli.helper as helper
    from mysensors.gateway_serial import AsyncSerialGateway, SerialGateway

    d = os.path.join(scratch_root(), f"verif-pymys-{os.getpid()}", "c06da")
    shutil.rmtree(d, ignore_errors=True)
    os.makedirs(d)
    path = os.path.join(d, f"p.{fmt}")
    gw1 = SerialGateway("/dev/verif", persistence=True, persistence_file=path, protocol_version="2.2")
    earlier = [int(gw1.logic("255;255;3;0;3;").strip().split(";")[5]) for _ in range(2)]
    gw1.tasks.persistence.save_sensors()
    handed, errors = [], []
    loop = vloop.VLoop()
    box = {}

    class T:  # minimal asyncio transport
        def write(self, data):
            parts = data.decode().strip().split(";")
            if len(parts) == 6 and parts[2] == "3" and parts[4] == "4":
                handed.append(int(parts[5]))

        def close(self):
            pass

        def is_closing(self):
            return False

    async def factory():
        gw = AsyncSerialGateway("/dev/verif", persistence=True, persistence_file=path, protocol_version="2.2")

        async def fake_connect(transport):
            transport.protocol.connection_made(T())
            box["proto"] = transport.protocol

        gw.tasks.transport._connect = fake_connect
        box["gw"] = gw
        return gw, None

    try:
        task = loop.start(helper.handle_async_gateway(factory))
        delivered = False
        taken = []
        for ev in list(order) + ["X"] * 4 + ["L"] + ["X"] * 4:
            if ev == "L" and not delivered and "proto" in box:
                loop.call(box["proto"].handle_line, "255;255;3;0;3;")
                loop.run_ready()
                delivered = True
                taken.append("L")
            elif ev == "X" and loop.executor_jobs:
                loop.complete_executor(0)
                taken.append("X")
        # Ctrl-C: asyncio.run cancels the main task, the runner stops the gateway
        loop.call(task.cancel)
        loop.run_ready()
        guard = 0
        while not task.done() and loop.executor_jobs and guard < 6:
            loop.complete_executor(0)
            guard += 1
        if not task.done():
            errors.append(("RunnerStuck", "handle_async_gateway did not finish after cancellation"))
        elif not task.cancelled() and task.exception() is not None:
            errors.append((type(task.exception()).__name__, str(task.exception())[:100]))
        for ctx in loop.handler_errors:
            errors.append(("LoopError", str(ctx.get("message"))[:100]))
        if not delivered:
            errors.append(("HarnessNoLink", "the runner never connected"))
    finally:
        loop.close()
        shutil.rmtree(d, ignore_errors=True)
    return earlier, handed, errors, "".join(taken)


ASYNC_CLI_ORDERS = ["".join(t) for n in range(0, 4) for t in itertools.product("LX", repeat=n)]


def run_part_d(report, tier):
    import multiprocessing
    import time

    from ..common import NPROC, Violation

    bound = 1  # both tiers: the runner has two statements to order; one preemption between them is the whole question
    deadline = time.time() + 600
    ctx = multiprocessing.get_context("fork")
    total = collections.Counter()
    outcomes = collections.Counter()
    complete_all = True
    with ctx.Pool(min(NPROC, 2)) as pool:
        for fmt, complete, execs, points, found, outs in pool.imap(_d_part, [(f, bound, deadline) for f in ("json", "pickle")]):
            total["executions"] += execs
            total["points"] += points
            outcomes.update(outs)
            complete_all = complete_all and complete
            _b_add(report, found)
    async_runs = 0
    for fmt in ("json", "pickle"):
        for order in ASYNC_CLI_ORDERS:
            earlier, handed, errors, taken = _d_async_one(fmt, order)
            async_runs += 1
            outcomes[str((tuple(earlier), tuple(handed), "async", taken))] += 1
            for pid in handed:
                if pid in earlier or not 1 <= pid <= 254:
                    report.add(Violation(PROP, "cli-runner-restart|async|id-handed-out-twice", f"life 1 handed out {earlier}; after a restart through cli.helper.handle_async_gateway the waiting id request was answered with id {pid} ({fmt})", {"kind": "cli-async", "check": PROP, "fmt": fmt, "order": order}))
            for name, text in errors:
                report.add(Violation(PROP, f"cli-runner-restart|async|runner-raised|{name}", f"{name}: {text} ({fmt})", {"kind": "cli-async", "check": PROP, "fmt": fmt, "order": order}))
            if not handed and not errors:
                report.add(Violation(PROP, "cli-runner-restart|async|harness-no-reply", "the waiting id request got no reply in the asyncio runner harness", {"kind": "cli-async", "check": PROP, "fmt": fmt, "order": order}))
    return {"preemption_bound": bound, "schedules": total["executions"], "scheduling_decisions": total["points"], "complete": complete_all, "asyncio_runner_runs": async_runs,
            "distinct_outcomes(ids of life 1, ids handed out in life 2)": dict(outcomes),
            "rule": "life 1 hands out two ids and saves; life 2 = mysensors.cli.helper.run_gateway on the same file with an id request waiting on the link when the connection is made: runner + connect thread + reader + pump, all schedules up to the preemption bound at line granularity of task.py and cli/helper.py; asyncio runner (handle_async_gateway) on the virtual loop: every order of {deliver the waiting line, complete the oldest executor job} up to length 3 then FIFO, Ctrl-C (task cancellation), both formats. Every id handed out in life 2 must differ from life 1's"}


# -- part (c): asyncio gateway, restarts with every completion order of the executor jobs (E4) ---------


class AsyncRestartWorld:
    """AsyncSerialGateway with persistence on the virtual loop. Events: id request, value traffic, timer,
    completion of executor job i (load / save run in the executor), clean stop + new gateway on the same file."""

    def __init__(self, cfg):
        import os
        import shutil

        from ..common import scratch_root
        from ..world import install_shims

        install_shims()
        self.cfg = cfg
        self.fmt = cfg["persistence"]
        base = os.path.join(scratch_root(), f"verif-pymys-{os.getpid()}")
        os.makedirs(base, exist_ok=True)
        self.dir = os.path.join(base, "c06c")
        shutil.rmtree(self.dir, ignore_errors=True)
        os.makedirs(self.dir)
        self.dead = None
        self.handed = []
        self.lives = 0
        self._boot()

    def _boot(self):
        import os

        from mysensors.gateway_serial import AsyncSerialGateway

        from ..vloop import VLoop

        self.loop = VLoop()
        self.gw = AsyncSerialGateway("/dev/verif", persistence=True, persistence_file=os.path.join(self.dir, f"p.{self.fmt}"), protocol_version="2.2")
        self.start_task = self.loop.start(self.gw.start_persistence())
        self.lives += 1
        self.started = False

    def enabled(self, ev):
        if ev[0] == "exec":
            return len(self.loop.executor_jobs) > ev[1]
        if ev[0] == "execfail":
            # only a save can fail this way (the load reads a file, it does not iterate over live state)
            return len(self.loop.executor_jobs) > ev[1] and "save" in getattr(self.loop.executor_jobs[ev[1]][1], "__name__", "")
        if ev[0] == "timer":
            return bool(self.loop.pending_timers())
        # the application awaits start_persistence() before it starts the gateway (README): no traffic, and no
        # stop(), before that coroutine has returned
        if not self.start_task.done():
            return False
        if ev[0] == "restart":
            return self.lives < 3
        if ev[0] == "start":
            return not self.started
        if ev[0] == "conn-ok":
            return bool(self.loop.live_requests())
        if ev[0] == "lost":
            return any(not t.lost_reported for t in self.loop.links_made)
        return True

    def apply(self, ev):
        from ..world import Obs, exc_info

        obs = Obs()
        if self.dead is not None:
            obs.exc, obs.where = self.dead, "dead"
            return obs
        obs.enabled = self.enabled(ev)
        if not obs.enabled:
            return obs
        try:
            if ev[0] == "rx":
                reply = self.loop.call(self.gw.logic, ev[1])
                self.loop.run_ready()
                if reply:
                    obs.sent.append((reply, ev))
            elif ev[0] == "exec":
                self.loop.complete_executor(ev[1])
            elif ev[0] == "execfail":
                # the job (a load or a save) fails with something that is not an OSError: the serialiser noticing that
                # the network changed while it was being written
                self.loop.complete_executor(ev[1], exc=RuntimeError("dictionary changed size during iteration"), run=False)
            elif ev[0] == "timer":
                self.loop.fire_next_timer()
            elif ev[0] == "start":
                # the transport side: gateway.start() dials through the (fake) serial_asyncio
                import types

                import mysensors.gateway_serial as gs

                gs.serial_asyncio = types.SimpleNamespace(create_serial_connection=self.loop.create_serial_connection)
                self.started = True
                self.loop.start(self.gw.start())
            elif ev[0] == "conn-ok":
                self.loop.answer_connection("ok")
            elif ev[0] == "lost":
                links = [t for t in self.loop.links_made if not t.lost_reported]
                self.loop.call(links[-1]._report_lost, ConnectionResetError("device error (harness)"))
                self.loop.run_ready()
            elif ev[0] == "restart":
                task = self.loop.start(self.gw.stop())
                guard = 0
                while not task.done() and self.loop.executor_jobs and guard < 6:
                    self.loop.complete_executor(0)
                    guard += 1
                if not task.done():
                    obs.exc = {"type": "Hang", "text": "stop() did not finish", "site": "task.py:stop"}
                elif task.cancelled():
                    obs.exc = {"type": "CancelledError", "text": "stop() ended with CancelledError before its final save", "site": "task.py:stop"}
                elif task.exception() is not None:
                    obs.exc = exc_info(task.exception())
                self.loop.shutdown()
                self._boot()
        except Exception as exc:  # pylint: disable=broad-except
            obs.exc = exc_info(exc)
            obs.where = "call"
            self.dead = obs.exc
        return obs

    def key(self, extra=None):
        import hashlib
        import os

        from .. import canon

        files = []
        for name in sorted(os.listdir(self.dir)):
            with open(os.path.join(self.dir, name), "rb") as fh:
                files.append((name, canon.digest(fh.read()).hex()))
        jobs = tuple(getattr(f, "__name__", "?") for _, f, _ in self.loop.executor_jobs)
        link = (self.started, len(self.loop.live_requests()), len([t for t in self.loop.links_made if not t.lost_reported]), self.gw.tasks.transport.connect_task is not None)
        text = repr((link, canon.walk(self.gw.sensors), self.gw.tasks.persistence.need_save, tuple(files), jobs, len(self.loop.pending_timers()), self.start_task.done(), self.lives, repr(self.dead), extra))
        return hashlib.blake2b(text.encode("utf-8", "surrogatepass"), digest_size=12).digest()

    def snapshot(self):
        return None

    def close(self):
        import shutil

        try:
            self.loop.shutdown()
        except Exception:  # pylint: disable=broad-except
            pass
        shutil.rmtree(self.dir, ignore_errors=True)


class IdHistoryMonitor:
    """History variable: ids handed out so far (across lives). Every id response is checked against it."""

    def __init__(self):
        self.stats = collections.Counter()
        self.handed = ()

    def clone(self):
        other = IdHistoryMonitor()
        other.handed = self.handed
        return other

    def key(self):
        return self.handed

    def step(self, world, ev, obs):
        from ..common import Violation, short

        viols = []
        if getattr(obs, "enabled", True) is False or obs.where == "dead":
            return viols
        if obs.exc is not None:
            viols.append(Violation(PROP, f"async-restart|exception|{ev[0]}|{obs.exc['type']}@{obs.exc['site']}", f"asyncio gateway: {short(ev)} raised {obs.exc['type']}: {obs.exc['text']}", None))
            return viols
        for line, _ in obs.sent:
            parts = line.strip().split(";")
            if len(parts) == 6 and parts[2] == "3" and parts[4] == "4":
                self.stats["async_id_responses"] += 1
                try:
                    pid = int(parts[5])
                except ValueError:
                    pid = None
                if pid is None or not 1 <= pid <= 254:
                    viols.append(Violation(PROP, "async-restart|id-out-of-range", f"id response carries {parts[5]!r}", None))
                elif pid in self.handed:
                    viols.append(Violation(PROP, "async-restart|id-handed-out-twice", f"asyncio gateway (life {world.lives}): id {pid} was handed out earlier (history {list(self.handed)})", None))
                else:
                    self.handed = self.handed + (pid,)
        return viols


class C06AsyncSpec(explore.Spec):
    prop = PROP
    use_snapshots = False

    def configs(self, tier):
        return [{"persistence": fmt, "flavour": "async"} for fmt in (("json",) if tier == "quick" else ("json", "pickle"))]

    def make_world(self, cfg):
        return AsyncRestartWorld(cfg)

    def alphabet(self, cfg):
        return [("exec", 0), alpha.rx("255;255;3;0;3;"), ("exec", 1), ("timer",), ("restart",), alpha.rx("1;255;3;0;0;57"), ("start",), ("conn-ok",), ("lost",), ("execfail", 0)]

    def new_monitor(self, cfg):
        return IdHistoryMonitor()
