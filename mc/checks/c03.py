"""C03 - inbound validation conforms to the per-version serial API (E5, exhaustive over the stated grid)."""
import collections
import itertools
import logging

from .. import e5, ref_valid
from ..common import Report, Violation, short

PROP = "C03"
NODES = [-1, 0, 1, 254, 255, 256]
CHILDREN = [-1, 0, 1, 254, 255, 256]
ACKS = [-1, 0, 1, 2]
CORPUS = [
    "", "0", "1", "2", "-1", "100", "101", "100.0", "100.01", "1e2", "nan", "inf", "-inf", " 5", "٥", "0x10", "1_0",
    "Off", "off", "HeatOn", "CoolOn", "AutoChangeOver", "Min", "min", "Normal", "Max", "Auto", "ff0000", "FF0000", "ff000",
    "ff00000", "gg0000", "ff0000ff", "ff0000f", "fffffffff", "ｆｆ0000", " ff 80", "ff 80 00", "ff\t0000", "0xff00", "ff00 00f", "1,2,3", "1,2", "1,2,3,4", "a,b,c", " 1, 2 ,3", "1,2,", "M", "I",
    "m", "255", "254", "253", "1.4", "1.3", "1.4.0", "1.3.9", "1.10", "2", "2.2.0", "9.9.9", "abc", "0.5", "-0.5", "-1.0", "-1.01",
    "1.0", "1.01", "50", "99", "+7", "٣٠", "text with blanks", "x" * 300, "0.0", "00", "1 ", "stable", "é",
    "1.4b1", "1.4rc1", "1.4.0-beta", "1.4.0-rc.1", "1.3b1", "1.4.1b1", "1.5b1", "2.0.0-beta", "2.2.0-rc.1",
]
GOOD = {
    "ANY": "x", "EMPTY": "", "BINARY": "1", "PERCENT_INT": "50", "UNIT_FLOAT_0_100": "50.5", "SIGNED_UNIT": "0.5",
    "HVAC_FLOW_STATE": "Off", "HVAC_SPEED": "Min", "RGB6": "ff0000", "RGBW8": "ff0000ff", "GPS3": "1,2,3", "INT": "7",
    "ID_1_254": "7", "ID_0_254": "7", "CONFIG": "M", "TIME": "", "VERSION_GE_1_4": "2.0",
}


def impl_verdicts(version, gw, line):
    """(validate verdict, logic-dispatch verdict) of the implementation for one line."""
    import voluptuous as vol
    from mysensors.message import Message

    try:
        msg = Message(line)
    except ValueError:
        v1 = "REJECT"
    else:
        try:
            msg.validate(version)
            v1 = "ACCEPT"
        except vol.Invalid:
            v1 = "REJECT"
    gw._verif_hits = 0
    ret = gw.logic(line)
    v2 = "ACCEPT" if gw._verif_hits else "REJECT"
    return v1, v2, ret


def spy_gateway(version):
    """A real Gateway whose handlers are replaced by a counting stub: 'logic dispatched' == accepted."""
    from mysensors import Gateway

    gw = Gateway(protocol_version=version)
    gw._verif_hits = 0

    def stub(msg):
        gw._verif_hits += 1
        return None

    for name in list(gw.handlers):
        gw.handlers[name] = stub
    return gw


def check_lines(chunk):
    from ..world import _memoize_awesomeversion_once

    _memoize_awesomeversion_once()
    logging.disable(logging.CRITICAL)
    viols, stats, samples = [], collections.Counter(), []
    gws = {}
    for version, line in chunk:
        gw = gws.get(version) or gws.setdefault(version, spy_gateway(version))
        want = ref_valid.ref_accepts_line(version, line)
        stats["lines"] += 1
        if want == ref_valid.UNSPEC:
            stats["unspec_skipped"] += 1
            continue
        stats["accept_expected" if want == "ACCEPT" else "reject_expected"] += 1
        try:
            v1, v2, ret = impl_verdicts(version, gw, line)
        except Exception as exc:  # pylint: disable=broad-except
            viols.append(Violation(PROP, f"validation-raises|{type(exc).__name__}", f"{version} {line!r}: {type(exc).__name__}: {short(str(exc))}", {"kind": "input", "check": PROP, "case": [version, line]}))
            continue
        rep = {"kind": "input", "check": PROP, "case": [version, line]}
        fields = line.split(";")
        cls = f"cmd={fields[2]}" if len(fields) > 2 else "short"
        if v1 != want:
            rule = ""
            try:
                rule = ref_valid.payload_rule(version, int(fields[2]), int(fields[4]))
            except Exception:  # pylint: disable=broad-except
                pass
            viols.append(Violation(PROP, f"validate-verdict|{cls}|{rule}|expected-{want}", f"{version} {line!r}: Message.validate says {v1}, reference validator says {want}", rep))
        if v2 != want:
            viols.append(Violation(PROP, f"logic-verdict|{cls}|expected-{want}", f"{version} {line!r}: Gateway.logic {'dispatched' if v2 == 'ACCEPT' else 'did not dispatch'} the line, reference validator says {want}", rep))
        if want == "REJECT" and ret is not None:
            viols.append(Violation(PROP, f"rejected-line-has-reply|{cls}", f"{version} {line!r}: logic returned {ret!r}", rep))
        if not samples and want == "ACCEPT":
            samples.append([version, line, want])
    return viols, stats, samples


def table_fingerprint():
    """Sizes and member lists of every version's lazily built, partly shared validation tables: validating must
    never change them (a grown table changes later verdicts, possibly of another version)."""
    from mysensors.const import get_const

    out = []
    for version in ref_valid.VERSIONS:
        const = get_const(version)
        out.append(tuple((int(k), tuple(int(m) for m in v)) for k, v in const.VALID_TYPES.items()))
        out.append(tuple((int(k), tuple(sorted(int(m) for m in v))) for k, v in const.VALID_MESSAGE_TYPES.items()))
        out.append(tuple((int(k), len(v)) for k, v in const.VALID_PAYLOADS.items()))
    return tuple(out)


def check_children(chunk):
    import voluptuous as vol
    from mysensors.sensor import ChildSensor

    logging.disable(logging.CRITICAL)
    viols, stats, samples = [], collections.Counter(), []
    before = table_fingerprint()
    for version, ptype in chunk:
        try:
            ChildSensor(0, ptype).validate(version, {})
        except Exception:  # pylint: disable=broad-except
            pass  # judged below
        if table_fingerprint() != before:
            viols.append(Violation(PROP, "validation-mutates-tables", f"{version}: validating a child of type {ptype} changed the validation tables of the const modules", {"kind": "input", "check": PROP, "case": [version, "child", ptype, {}]}))
            break  # later verdicts of this process are meaningless (and the tables may keep growing)
        cases = [({}, "ACCEPT")]
        for vt in ref_valid.TABLES[version][1]:
            for payload in CORPUS[::3] + ["0", "1", "50", "Off", "Min", "ff0000", "ff0000ff", "1,2,3", "0.5"]:
                cases.append(({vt: payload}, ref_valid.ref_child_accepts(version, ptype, vt, payload)))
        cases.append(({999: "x"}, "REJECT"))
        for values, want in cases:
            stats["child_schema_cases"] += 1
            rep = {"kind": "input", "check": PROP, "case": [version, "child", ptype, values]}
            try:
                ChildSensor(0, ptype).validate(version, values)
                got = "ACCEPT"
            except vol.Invalid:
                got = "REJECT"
            except Exception as exc:  # pylint: disable=broad-except
                viols.append(Violation(PROP, f"child-schema-internal-error|{type(exc).__name__}", f"{version}: ChildSensor(type {ptype}).validate({values}) raised {type(exc).__name__}: {short(str(exc))}", rep))
                continue
            if want != ref_valid.UNSPEC and got != want:
                viols.append(Violation(PROP, f"child-schema-verdict|expected-{want}", f"{version}: child type {ptype} values {values}: {got}, expected {want}", rep))
        if not samples:
            samples.append([version, "child-type", ptype, len(cases)])
    return viols, stats, samples


def table_checks():
    """Monotonicity and completeness on the implementation's own tables."""
    from mysensors.const import get_const

    viols = []
    prev = None
    n = 0
    for version in ref_valid.VERSIONS:
        const = get_const(version)
        if const.__name__.rsplit("_", 1)[1] != version.replace(".", ""):
            viols.append(Violation(PROP, "const-module", f"get_const({version}) is {const.__name__}", {"kind": "input", "check": PROP, "case": ["tables", version]}))
        defined = {int(mt): {int(m) for m in members} for mt, members in const.VALID_MESSAGE_TYPES.items()}
        want = {cmd: set(tab) for cmd, tab in ref_valid.TABLES[version].items()}
        n += 1
        if defined != want:
            viols.append(Violation(PROP, "defined-subtypes", f"{version}: defined sub-types differ from the golden table: {short({k: sorted(defined.get(k, set()) ^ want.get(k, set())) for k in want})}", {"kind": "input", "check": PROP, "case": ["tables", version]}))
        for mt, members in const.VALID_MESSAGE_TYPES.items():
            for m in members:
                n += 1
                if m not in const.VALID_PAYLOADS.get(mt, {}):
                    viols.append(Violation(PROP, "payload-rule-missing", f"{version}: {mt!r}/{m!r} has no payload rule (silently means 'must be empty')", {"kind": "input", "check": PROP, "case": ["tables", version, int(mt), int(m)]}))
        for p in const.Presentation:
            n += 1
            if p not in const.VALID_TYPES:
                viols.append(Violation(PROP, "child-schema-missing", f"{version}: presentation type {p!r} has no child-value schema", {"kind": "input", "check": PROP, "case": ["tables", version, int(p)]}))
        if prev is not None:
            for cmd in want:
                n += 1
                if not prev[cmd] <= defined.get(cmd, set()):
                    viols.append(Violation(PROP, "not-monotone", f"{version}: sub-types {sorted(prev[cmd] - defined.get(cmd, set()))} of command {cmd} disappeared", {"kind": "input", "check": PROP, "case": ["tables", version, cmd]}))
        prev = defined
    return viols, n


def check_load_order(chunk):
    """The const modules are lazily loaded, cached globals that build on each other: judge the sub-type
    boundary of every version again after every other version has been used, in both orders, in ONE process."""
    logging.disable(logging.CRITICAL)
    viols, stats, samples = [], collections.Counter(), []
    for order in chunk:
        versions = list(ref_valid.VERSIONS)
        if order == "descending":
            versions.reverse()
        lines = []
        for _ in range(2):  # second sweep: every version is judged after all others were loaded
            for version in versions:
                table = ref_valid.TABLES[version]
                for cmd in table:
                    top = max(table[cmd])
                    for sub in (top - 1, top, top + 1, top + 2, top + 5):
                        rule = table[cmd].get(sub)
                        child = 255 if cmd in (3, 4) or (cmd == 0 and sub in (17, 18)) else 0
                        lines.append((version, f"1;{child};{cmd};0;{sub};{GOOD[rule] if rule else ''}"))
                        lines.append((version, f"1;{child};{cmd};0;{sub};x"))
        v, st, sm = check_lines(lines)
        # child schemas of every version after the schemas of every other version were built, same process
        from mysensors.sensor import ChildSensor
        import voluptuous as vol

        before = table_fingerprint()
        for _ in range(2):
            for version in versions:
                for ptype in ref_valid.VALUE_TYPES[version]:
                    stats["load_order_lines"] += 1
                    try:
                        ChildSensor(0, ptype).validate(version, {})
                    except vol.Invalid:
                        v.append(Violation(PROP, "child-schema-verdict|expected-ACCEPT", f"{version}: child type {ptype} without values rejected", None))
                    except Exception as exc:  # pylint: disable=broad-except
                        v.append(Violation(PROP, f"child-schema-internal-error|{type(exc).__name__}", f"{version}: ChildSensor(type {ptype}).validate({{}}) raised {type(exc).__name__}: {short(str(exc))} after other versions' schemas were built", None))
            if table_fingerprint() != before:
                v.append(Violation(PROP, "validation-mutates-tables", "building child schemas changed the validation tables of the const modules", None))
                break
        for viol in v:
            viol.signature = "load-order|" + viol.signature
            viol.replay = {"kind": "input", "check": PROP, "case": ["load-order", order]}
        viols.extend(v)
        stats["load_order_lines"] += len(lines)
        samples.append(["load-order", order, len(lines)])
    return viols, stats, samples


def grid(tier):
    versions = ref_valid.VERSIONS
    lines = []
    for version in versions:
        table = ref_valid.TABLES[version]
        for cmd in range(-1, 6):
            subs = range(-1, (max(table[cmd]) if cmd in table else 2) + 3)
            full = tier == "thorough" or version in ("1.4", "2.2")
            for sub in subs:
                rule = table.get(cmd, {}).get(sub)
                payload = GOOD[rule] if rule else "x"
                if full:
                    combos = itertools.product(NODES, CHILDREN, ACKS)
                else:
                    combos = [(n, c, a) for n, c, a in itertools.product(NODES, CHILDREN, ACKS) if (n in (0, 256) or c in (0, 255, 256)) and a in (0, 2)]
                for node, child, ack in combos:
                    lines.append((version, f"{node};{child};{cmd};{ack};{sub};{payload}"))
        # payload corpus for every defined (command, sub-type) with a correct header
        for cmd, tab in table.items():
            for sub in tab:
                child = 255 if cmd in (3, 4) else 0
                if cmd == 0:
                    child = 255 if sub in (17, 18) else 0
                for p in CORPUS:
                    lines.append((version, f"1;{child};{cmd};0;{sub};{p}"))
    return lines


def run(tier):
    logging.disable(logging.CRITICAL)
    report = Report(PROP, "exploration", tier)
    lines = grid(tier)
    v1, s1, m1 = e5.pmap(check_lines, lines, parts=64)
    kids = [(v, pt) for v in ref_valid.VERSIONS for pt in ref_valid.VALUE_TYPES[v]]
    v2, s2, m2 = e5.pmap(check_children, kids)
    v3, ntab = table_checks()
    v4, s4, m4 = e5.pmap(check_load_order, ["ascending", "descending"], parts=2)
    report.add_all(v1 + v2 + v3 + v4)
    stats = s1 + s2 + s4
    cov = report.coverage
    cov["evaluations"] = stats["lines"] + stats["child_schema_cases"] + ntab + stats["load_order_lines"]
    cov["distinct_nontrivial"] = len(set(lines)) - stats["unspec_skipped"]
    cov["rule"] = (
        "header grid: version x command -1..5 x sub-type -1..max+2 x node {-1,0,1,254,255,256} x child {same} x ack {-1,0,1,2} "
        "with a payload that satisfies the sub-type's rule (full grid for 1.4 and 2.2 in the quick tier, for all versions in "
        "thorough); payload grid: every defined (version, command, sub-type) x a boundary corpus of "
        f"{len(CORPUS)} payloads; each line judged by Message.validate, by Gateway.logic (dispatch observed through stub "
        "handlers) and by the hand-written reference validator; child schemas: every presentation type x every value type x "
        "payload corpus; tables: completeness and monotonicity; non-trivial = distinct lines with a decided reference verdict"
    )
    cov["exhaustive"] = True
    cov["counts"] = dict(stats)
    cov["table_checks"] = ntab
    cov["samples"] = (m1 + m2)[:8]
    cov["regression_oracle_note"] = "the assignment of payload rules to sub-types in mc/ref_valid.py records the pinned tree's choice after review against the serial API; for those rows the check is a regression oracle"
    report.assumptions = ["golden tables in mc/ref_valid.py (hand-written, no import from mysensors)", "UNSPEC verdicts (child id outside 0..255 on id request/response, version texts that are neither dotted numbers nor a dotted number with an a/b/rc/alpha/beta/dev pre-release tag) are skipped and counted", "a pre-release of X is ordered before X and after every release below X (PEP 440 and semver agree), so 1.4b1 is not >= 1.4 while 1.4.1b1 and 2.0.0-beta are"]
    return report.finish()


def replay(data):
    case = data["replay"]["case"]
    logging.disable(logging.CRITICAL)
    if case[0] in ("tables", "load-order") or (len(case) > 1 and case[1] == "child"):
        print("table/child-schema case: re-running the whole check")
        return run("quick")
    viols, _, _ = check_lines([(case[0], case[1])])
    sigs = sorted(v.signature for v in viols)
    print(f"{case}: violations {sigs}")
    if data["signature"] in sigs:
        print(f"VIOLATION property={PROP} replay=<replayed>")
        return 1
    print("did not reproduce on the current tree")
    return 0
