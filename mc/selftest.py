"""./check --selftest : imports, tool versions, scratch directory, engine smoke runs. Builds nothing."""
import os
import sys


def main():
    import mysensors

    print(f"python {sys.version.split()[0]}; mysensors from {os.path.dirname(mysensors.__file__)}")
    if not os.path.realpath(mysensors.__file__).startswith(os.path.realpath(os.environ.get("VERIF_REPO", "/repo"))):
        print("HARNESS-ERROR: mysensors is not imported from /repo's working tree")
        return 2
    from .common import scratch_root

    root = scratch_root()
    probe = os.path.join(root, f"verif-selftest-{os.getpid()}")
    with open(probe, "w", encoding="utf-8") as fh:
        fh.write("ok")
    os.remove(probe)
    print(f"scratch root {root} writable")
    # E1 smoke: a 3-event history on a real gateway with the reference model in lock-step
    from . import alpha
    from .monitors import GatewayMonitor
    from .world import World, cleanup_process_scratch

    world = World({"version": "2.2"})
    mon = GatewayMonitor("SELF", "2.2", {"tree", "replies", "callbacks", "sleep"})
    table = alpha.lines("2.2")
    for name in ("PA", "CA0", "SA0", "RA0", "PSA", "CFG", "PSA"):
        ev = alpha.rx(table[name])
        obs = world.apply(ev)
        viols = mon.step(world, ev, obs)
        if viols or obs.exc:
            print(f"HARNESS-ERROR: smoke history failed at {name}: {[v.message for v in viols]} {obs.exc}")
            return 2
    world.close()
    cleanup_process_scratch()
    print("E1 smoke ok")
    for mod in ("sched", "fsfault", "vloop"):
        try:
            __import__(f"mc.{mod}")
            print(f"engine module mc.{mod} imports")
        except ModuleNotFoundError:
            print(f"engine module mc.{mod} not present in this revision")
    return 0
