"""E5 helpers: parallel bounded-exhaustive enumeration with deterministic merging."""
import collections
import multiprocessing

from .common import NPROC

_FUNC = None


def _call(chunk):
    return _FUNC(chunk)


def pmap(func, items, parts=None):
    """Run func(chunk) -> (violations, Counter, samples) over chunks in worker processes; merge in order."""
    global _FUNC
    _FUNC = func
    items = list(items)
    parts = parts or NPROC * 4
    size = max(1, (len(items) + parts - 1) // parts)
    chunks = [items[i : i + size] for i in range(0, len(items), size)]
    viols, stats, samples = [], collections.Counter(), []
    ctx = multiprocessing.get_context("fork")
    with ctx.Pool(min(NPROC, max(1, len(chunks)))) as pool:
        for v, st, sm in pool.imap(_call, chunks):
            viols.extend(v)
            stats.update(st)
            samples.extend(sm[:2])
    return viols, stats, samples
