"""E1 - explicit-state breadth-first search over event histories, executed on the real code.

A state is identified by a history that reaches it; ``build`` replays the history on a fresh
real gateway (live gateways are never copied). State matching uses the generic canonical key of
mc.canon plus the monitor's own history variables. Level-synchronous, distributed over worker
processes; results are merged in a fixed order so that every count and every first
counter-example is reproducible.
"""
import collections
import multiprocessing
import os
import time

from .common import NPROC, HarnessError, Violation
from .world import World, cleanup_process_scratch

_SPEC = None  # set in the parent before the pool forks


class Spec:
    """What a check supplies to the explorer. Override the methods you need."""

    prop = "C00"
    world_cls = World

    def configs(self, tier):
        return [{"version": "2.2"}]

    def alphabet(self, cfg):
        raise NotImplementedError

    def roots(self, cfg):
        return [()]

    def new_monitor(self, cfg):
        """Return an object with step(world, ev, obs) -> [Violation...], key() and stats dict."""
        return NullMonitor()

    def at_state(self, world, monitor, hist, cfg):
        """Optional: run once in every distinct state (before it is expanded). -> [Violation]"""
        return []

    has_at_state = False
    use_snapshots = os.environ.get("VERIF_NO_SNAPSHOT") != "1"

    def make_world(self, cfg):
        return self.world_cls(cfg)

    def cfg_name(self, cfg):
        return ",".join(f"{k}={v}" for k, v in sorted(cfg.items()) if k != "persist_dir")


class NullMonitor:
    def __init__(self):
        self.stats = collections.Counter()

    def clone(self):
        return NullMonitor()

    def step(self, world, ev, obs):
        return []

    def key(self):
        return None


def build(spec, cfg, hist, collect=None):
    """Fresh real world with ``hist`` replayed; monitors run on every replayed step.

    Returns (world, monitor, violations_of_last_step, obs_of_last_step).
    """
    world = spec.make_world(cfg)
    mon = spec.new_monitor(cfg)
    viols = []
    obs = None
    for i, ev in enumerate(hist):
        obs = world.apply(ev)
        viols = mon.step(world, ev, obs) or []
        for v in viols:
            v.replay = {"kind": "history", "check": spec.prop, "cfg": cfg, "history": list(hist[: i + 1])}
        if collect is not None:
            collect.extend(viols)
    return world, mon, viols, obs


def _expand(args):
    """Worker entry: a BaseException that is not an Exception (asyncio.CancelledError leaking out of the code under
    test, SystemExit, ...) would kill the worker process and leave the pool waiting for ever; turn it into an error."""
    try:
        return _expand_chunk(args)
    except Exception:
        raise
    except BaseException as exc:  # pylint: disable=broad-except
        import traceback

        raise HarnessError(f"{type(exc).__name__} escaped from a world step in a worker: {''.join(traceback.format_exception(exc))[-1500:]}") from None


def _expand_chunk(args):
    """Worker: expand a chunk of frontier states of one configuration."""
    cfg_idx, cfg, hists, run_at_state, do_expand = args
    spec = _SPEC
    alphabet = spec.alphabet(cfg)
    out = []
    stats = collections.Counter()
    for hist in hists:
        row = []
        at_viols = []
        if run_at_state and spec.has_at_state:
            world, mon, _, _ = build(spec, cfg, hist)
            try:
                at_viols = spec.at_state(world, mon, hist, cfg) or []
                for v in at_viols:
                    if v.replay is None or "kind" not in v.replay:
                        v.replay = dict(v.replay or {}, kind="history+probe", check=spec.prop, cfg=cfg, history=list(hist))
                stats.update(mon.stats)
                mon.stats.clear()
            finally:
                world.close()
        if do_expand:
            world = None
            snap = None
            base_key = None
            mon_base = None
            try:
                for idx, ev in enumerate(alphabet):
                    mon = None
                    if world is not None and snap is not None:
                        # validated shortcut: restore the containers, then require the canonical key
                        # of the fresh world; otherwise fall back to replaying the history
                        world.restore(snap)
                        if world.key(None) == base_key:
                            mon = mon_base.clone()
                            stats["snapshot_restores"] += 1
                        else:
                            stats["snapshot_fallbacks"] += 1
                            world.close()
                            world = None
                            snap = None
                    elif world is not None:
                        world.close()
                        world = None
                    if world is None:
                        world, mon_fresh, _, _ = build(spec, cfg, hist)
                        stats["replays"] += 1
                        if spec.use_snapshots and hasattr(mon_fresh, "clone") and (idx == 0 or snap is not None):
                            snap = world.snapshot() if idx == 0 else snap
                        if idx == 0 and snap is not None:
                            base_key = world.key(None)
                            mon_base = mon_fresh
                            mon = mon_base.clone()
                        else:
                            mon = mon_fresh
                    mon.stats.clear()
                    obs = world.apply(ev)
                    viols = mon.step(world, ev, obs) or []
                    for v in viols:
                        v.replay = {"kind": "history", "check": spec.prop, "cfg": cfg, "history": list(hist) + [ev]}
                    key = world.key(mon.key())
                    stats.update(mon.stats)
                    stats["transitions"] += 1
                    row.append((idx, key, viols))
            finally:
                if world is not None:
                    world.close()
        out.append((hist, row, at_viols))
    return cfg_idx, out, stats


def _init_worker():
    pass


def run(spec, report, tier, depth, state_budget, time_budget):
    """Explore every configuration of ``spec``. Fills report.coverage; returns nothing."""
    global _SPEC
    _SPEC = spec
    start = time.time()
    configs = spec.configs(tier)
    total_states = 0
    total_trans = 0
    stats = collections.Counter()
    completed = {}
    caps = []
    samples = []
    ctx = multiprocessing.get_context("fork")
    pool = ctx.Pool(NPROC)
    try:
        per_cfg_budget = max(1, state_budget // max(1, len(configs)))
        per_cfg_time = time_budget / max(1, len(configs))
        for cfg_idx, cfg in enumerate(configs):
            cfg_start = time.time()
            name = spec.cfg_name(cfg)
            seen = set()
            frontier = []
            # roots are replayed and checked like any other history
            for root in spec.roots(cfg):
                collect = []
                world, mon, _, _ = build(spec, cfg, tuple(root), collect)
                key = world.key(mon.key())
                world.close()
                report.add_all(collect)
                if key not in seen:
                    seen.add(key)
                    frontier.append(tuple(root))
            level = 0
            capped = False
            cfg_depth = cfg.get("depth", depth)
            while frontier and level < cfg_depth:
                if len(seen) >= per_cfg_budget or time.time() - cfg_start > per_cfg_time:
                    capped = True
                    break
                chunks = _chunk(frontier, NPROC * 16)
                tasks = [(cfg_idx, cfg, ch, True, True) for ch in chunks]
                nxt = []
                partial = False
                it = pool.imap(_expand, tasks)
                for _, out, st in it:
                    stats.update(st)
                    for hist, row, at_viols in out:
                        report.add_all(at_viols)
                        for idx, key, viols in row:
                            report.add_all(viols)
                            total_trans += 1
                            if key not in seen:
                                seen.add(key)
                                nxt.append(hist + (spec.alphabet(cfg)[idx],))
                    if time.time() - cfg_start > 3 * per_cfg_time:
                        # hard stop inside a level: the level is reported as partially expanded
                        partial = True
                        break
                if partial:
                    pool.terminate()
                    pool.join()
                    pool = ctx.Pool(NPROC)
                    caps.append(f"{name}: wall-time cap hit while expanding depth {level + 1}: that level is only partially expanded ({len(seen)} states seen)")
                    frontier = []
                    break
                frontier = nxt
                level += 1
            if capped:
                caps.append(f"{name}: budget reached after completing depth {level} ({len(seen)} states)")
            # final frontier: states discovered at the last completed level still get at_state
            if frontier and spec.has_at_state:
                chunks = _chunk(frontier, NPROC * 4)
                tasks = [(cfg_idx, cfg, ch, True, False) for ch in chunks]
                for _, out, st in pool.imap(_expand, tasks):
                    stats.update(st)
                    for hist, row, at_viols in out:
                        report.add_all(at_viols)
            completed[name] = level
            total_states += len(seen)
            if frontier:
                samples.append([_show(e) for e in frontier[len(frontier) // 2]])
            elif seen:
                samples.append([])
    finally:
        pool.close()
        pool.join()
        cleanup_process_scratch()
    cov = report.coverage
    cov["states"] = total_states
    cov["transitions"] = total_trans
    cov["traces_validated_against_impl"] = total_trans
    cov["completed_depth"] = completed
    cov["caps_hit"] = caps
    cov["exhaustive"] = not caps
    cov["samples"] = samples[:6] or [[]]
    cov["witnesses"] = dict(stats)
    from . import canon

    cov["opaque_in_state"] = sorted(canon.OPAQUE)
    cov["configs"] = [spec.cfg_name(c) for c in configs]
    cov["explore_wall_s"] = round(time.time() - start, 2)


def _chunk(items, parts):
    size = max(1, (len(items) + parts - 1) // parts)
    return [items[i : i + size] for i in range(0, len(items), size)]


def _show(ev):
    return list(ev) if isinstance(ev, tuple) else ev


def confirm(spec, viol):
    """Re-execute a history violation from its replay data; it must reproduce identically."""
    rep = viol.replay
    if not rep or rep.get("kind") != "history":
        return True
    collect = []
    world, _, _, _ = build(spec, rep["cfg"], tuple(tuple(e) if isinstance(e, list) else e for e in rep["history"]), collect)
    world.close()
    return any(v.signature == viol.signature for v in collect)
