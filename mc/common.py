"""Shared plumbing: evidence files, replay files, known findings, violation reporting."""
import hashlib
import json
import os
import sys
import time

ROOT = os.path.dirname(os.path.dirname(os.path.abspath(__file__)))
EVIDENCE_DIR = os.environ.get("VERIF_EVIDENCE_DIR") or os.path.join(ROOT, "evidence")
REPLAY_DIR = os.environ.get("VERIF_REPLAY_DIR") or os.path.join(ROOT, "replays")
KNOWN_FILE = os.path.join(ROOT, "known_findings.json")
REPO = os.environ.get("VERIF_REPO", "/repo")
NPROC = int(os.environ.get("VERIF_NPROC", str(min(16, os.cpu_count() or 1))))


def seed():
    try:
        return int(os.environ.get("VERIF_SEED", "0"))
    except ValueError:
        return 0


def scratch_root():
    """Directory for scratch files: RAM disk when present. Always removed by the user of it."""
    for cand in ("/dev/shm",):
        if os.path.isdir(cand) and os.access(cand, os.W_OK):
            return cand
    import tempfile

    return tempfile.gettempdir()


def jsonable(obj):
    """Make any harness value JSON-serialisable (for replay / evidence files)."""
    if isinstance(obj, (str, int, float, bool)) or obj is None:
        return obj
    if isinstance(obj, bytes):
        return {"__bytes__": obj.hex()}
    if isinstance(obj, (list, tuple)):
        return [jsonable(x) for x in obj]
    if isinstance(obj, (set, frozenset)):
        return sorted((jsonable(x) for x in obj), key=repr)
    if isinstance(obj, dict):
        return {str(k): jsonable(v) for k, v in obj.items()}
    return repr(obj)


def unjson(obj):
    """Inverse of jsonable for event histories (lists become tuples)."""
    if isinstance(obj, dict) and set(obj) == {"__bytes__"}:
        return bytes.fromhex(obj["__bytes__"])
    if isinstance(obj, list):
        return tuple(unjson(x) for x in obj)
    if isinstance(obj, dict):
        return {k: unjson(v) for k, v in obj.items()}
    return obj


class Violation:
    """One violation: a stable signature (what failed) and replay data (how to get there)."""

    def __init__(self, prop, signature, message, replay):
        self.prop = prop
        self.signature = signature  # string, independent of where the search found it
        self.message = message
        self.replay = replay  # dict, JSON-able; must contain "kind"

    def key(self):
        return (self.prop, self.signature)

    def to_dict(self):
        return {
            "property": self.prop,
            "signature": self.signature,
            "message": self.message,
            "replay": jsonable(self.replay),
        }


def load_known():
    """Read the committed known-findings file (never written at run time)."""
    try:
        with open(KNOWN_FILE, encoding="utf-8") as fh:
            data = json.load(fh)
    except FileNotFoundError:
        return {}
    known = {}
    for ent in data.get("findings", []):
        if ent.get("status") == "known":
            known[(ent["property"], ent["signature"])] = ent
    return known


def write_replay(viol):
    digest = hashlib.blake2b(
        json.dumps(viol.to_dict(), sort_keys=True).encode(), digest_size=8
    ).hexdigest()
    directory = os.path.join(REPLAY_DIR, viol.prop)
    os.makedirs(directory, exist_ok=True)
    path = os.path.join(directory, f"{digest}.json")
    with open(path, "w", encoding="utf-8") as fh:
        json.dump(viol.to_dict(), fh, indent=1, sort_keys=True)
    return path


class Report:
    """Collects violations (deduplicated by signature, shortest replay first) and coverage."""

    def __init__(self, prop, level, tier):
        self.prop = prop
        self.level = level
        self.tier = tier
        self.start = time.time()
        self.violations = {}
        self.coverage = {}
        self.assumptions = []

    def add(self, viol):
        if viol is None:
            return
        cur = self.violations.get(viol.key())
        if cur is None:
            self.violations[viol.key()] = viol
        elif viol.replay is not None and viol.replay != cur.replay:
            # further witnesses of the same signature (a few): used when the first one does not reproduce from its
            # replay data because state leaked into it from another execution in the same worker process
            alts = cur.__dict__.setdefault("alternates", [])
            if len(alts) < 6:
                alts.append(viol)

    def add_all(self, viols):
        for v in viols:
            self.add(v)

    def finish(self):
        """Write evidence, print KNOWN-FINDING / VIOLATION lines, return exit code."""
        known = load_known()
        new = []
        seen_known = []
        for key in sorted(self.violations):
            viol = self.violations[key]
            if key in known:
                seen_known.append((viol, known[key]))
            else:
                new.append(viol)
        for viol, ent in seen_known:
            print(f"KNOWN-FINDING: property={self.prop} {ent.get('what', viol.message)}")
        paths = []
        for viol in new:
            path = write_replay(viol)
            paths.append(path)
            print(f"VIOLATION property={self.prop} replay={path}")
            print(f"  signature: {viol.signature}")
            print(f"  {viol.message}")
        cov = dict(self.coverage)
        cov.setdefault("known_findings_seen", [v.signature for v, _ in seen_known])
        cov.setdefault("new_violation_signatures", [v.signature for v in new])
        evidence = {
            "property_id": self.prop,
            "tier": self.tier,
            "seed": seed(),
            "level": self.level,
            "coverage": jsonable(cov),
            "assumptions": list(self.assumptions),
            "wall_s": round(time.time() - self.start, 3),
            "violations": len(new),
        }
        os.makedirs(EVIDENCE_DIR, exist_ok=True)
        path = os.path.join(EVIDENCE_DIR, f"{self.prop}.json")
        tmp = path + ".tmp"
        with open(tmp, "w", encoding="utf-8") as fh:
            json.dump(evidence, fh, indent=1, sort_keys=True)
            fh.write("\n")
        os.replace(tmp, path)
        summary = {k: v for k, v in cov.items() if isinstance(v, (int, float, bool, str))}
        print(f"[{self.prop}] tier={self.tier} wall={evidence['wall_s']}s {json.dumps(summary, sort_keys=True)}")
        sys.stdout.flush()
        return 1 if new else 0


class HarnessError(Exception):
    """The harness itself misbehaved (non-reproducible failure, divergence): exit 2, never VIOLATION."""


def short(obj, limit=200):
    text = obj if isinstance(obj, str) else repr(obj)
    return text if len(text) <= limit else text[: limit - 3] + "..."
