"""Glue for E1-based checks: run the explorer, confirm violations, write evidence, replay."""
from . import explore
from .common import HarnessError, Report, Violation


def run_e1(spec, tier, depth, state_budget, time_budget, rule, assumptions, level="model_checking", extra_cov=None, post=None):
    report = Report(spec.prop, level, tier)
    explore.run(spec, report, tier, depth, state_budget, time_budget)
    # every history violation must reproduce from its replay data before it is reported
    for viol in list(report.violations.values()):
        if viol.replay and viol.replay.get("kind") == "history":
            if not explore.confirm(spec, viol):
                raise HarnessError(f"violation {viol.signature} did not reproduce from its replay data")
    cov = report.coverage
    wit = cov.get("witnesses", {})
    cov["rule"] = rule
    cov["evaluations"] = cov["transitions"]
    cov["distinct_nontrivial"] = cov["states"]
    if extra_cov:
        cov.update(extra_cov(cov, wit))
    report.assumptions = list(assumptions)
    if post:
        post(report)
    return report.finish()


def replay_history(spec, data):
    """Replay one recorded history on the real code, without exploring. Exit 1 if it reproduces."""
    rep = data["replay"]
    cfg = rep["cfg"]
    hist = tuple(rep["history"])
    collect = []
    world, mon, _, _ = explore.build(spec, cfg, hist, collect)
    probe_viols = []
    if rep.get("kind") == "history+probe" and spec.has_at_state:
        probe_viols = spec.at_state(world, mon, hist, cfg) or []
    world.close()
    from .world import cleanup_process_scratch

    cleanup_process_scratch()
    sigs = {v.signature for v in collect} | {v.signature for v in probe_viols}
    print(f"replayed {len(hist)} events on cfg {cfg}; violations seen: {sorted(sigs)}")
    if data["signature"] in sigs:
        print(f"VIOLATION property={data['property']} replay=<replayed>")
        print(f"  {data['message']}")
        return 1
    print("did not reproduce on the current tree")
    return 0
