"""Glue for E1-based checks: run the explorer, confirm violations, write evidence, replay."""
from . import explore
from .common import HarnessError, Report, Violation


def confirm_all(spec, report):
    """Every history violation must reproduce from its replay data (fresh world, this process) before it is reported.

    A violation that does not reproduce is not reported: something outside the explored state influenced it (typically
    module-level state of the library shared between executions in one worker process). If others do reproduce the run
    reports those and lists the dropped signatures in coverage.unconfirmed_dropped; if none does, that is a harness error.
    """
    dropped = []
    for sig, viol in list(report.violations.items()):
        if viol.replay and viol.replay.get("kind") == "history" and not explore.confirm(spec, viol):
            dropped.append(viol.signature)
            del report.violations[sig]
    if dropped:
        report.coverage["unconfirmed_dropped"] = dropped
        if not report.violations:
            raise HarnessError(f"violation(s) {dropped[:3]} did not reproduce from their replay data and nothing else was found")
        print(f"note: {len(dropped)} violation signature(s) did not reproduce from their replay data and were dropped: {dropped[:5]}")


def run_e1(spec, tier, depth, state_budget, time_budget, rule, assumptions, level="model_checking", extra_cov=None, post=None):
    report = Report(spec.prop, level, tier)
    explore.run(spec, report, tier, depth, state_budget, time_budget)
    confirm_all(spec, report)
    cov = report.coverage
    wit = cov.get("witnesses", {})
    cov["rule"] = rule
    cov["evaluations"] = cov["transitions"]
    cov["distinct_nontrivial"] = cov["states"]
    if extra_cov:
        cov.update(extra_cov(cov, wit))
    report.assumptions = list(assumptions)
    if post:
        post(report)
    return report.finish()


def replay_history(spec, data):
    """Replay one recorded history on the real code, without exploring. Exit 1 if it reproduces."""
    rep = data["replay"]
    cfg = rep["cfg"]
    hist = tuple(rep["history"])
    collect = []
    world, mon, _, _ = explore.build(spec, cfg, hist, collect)
    probe_viols = []
    if rep.get("kind") == "history+probe" and spec.has_at_state:
        probe_viols = spec.at_state(world, mon, hist, cfg) or []
    world.close()
    from .world import cleanup_process_scratch

    cleanup_process_scratch()
    sigs = {v.signature for v in collect} | {v.signature for v in probe_viols}
    print(f"replayed {len(hist)} events on cfg {cfg}; violations seen: {sorted(sigs)}")
    if data["signature"] in sigs:
        print(f"VIOLATION property={data['property']} replay=<replayed>")
        print(f"  {data['message']}")
        return 1
    print("did not reproduce on the current tree")
    return 0
