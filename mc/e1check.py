"""Glue for E1-based checks: run the explorer, confirm violations, write evidence, replay."""
from . import explore
from .common import HarnessError, Report, Violation


def _confirm_in_fresh_process(viol):
    """Replay one witness in a pristine interpreter (./check --replay): exit 1 there = it reproduces."""
    import json
    import os
    import subprocess
    import sys
    import tempfile

    here = os.path.dirname(os.path.dirname(os.path.abspath(__file__)))
    fd, path = tempfile.mkstemp(prefix="verif-confirm-", suffix=".json", dir=os.environ.get("VERIF_SCRATCH", "/dev/shm"))
    try:
        with os.fdopen(fd, "w", encoding="utf-8") as fh:
            json.dump(viol.to_dict(), fh)
        proc = subprocess.run([sys.executable, "-m", "mc.runner", "--replay", path], cwd=here, capture_output=True, text=True, timeout=600)
        return proc.returncode == 1
    except (OSError, subprocess.SubprocessError):
        return False
    finally:
        try:
            os.unlink(path)
        except OSError:
            pass


def confirm_all(spec, report):
    """Every history violation must reproduce from its replay data before it is reported: first in this process on a
    fresh world, then - for the witness and up to six alternates of the same signature - in a pristine interpreter.

    A violation that reproduces nowhere is not reported: something outside the explored state influenced it (typically
    module-level state of the library shared between executions in one worker process). If others do reproduce the run
    reports those and lists the dropped signatures in coverage.unconfirmed_dropped; if none does, that is a harness error.
    """
    dropped = []
    for sig, viol in list(report.violations.items()):
        if not (viol.replay and viol.replay.get("kind") == "history"):
            continue
        if explore.confirm(spec, viol):
            continue
        witnesses = [viol] + list(getattr(viol, "alternates", []))
        good = next((w for w in witnesses if w.replay and w.replay.get("kind") == "history" and _confirm_in_fresh_process(w)), None)
        if good is not None:
            report.violations[sig] = good
            report.coverage.setdefault("confirmed_in_fresh_process", []).append(viol.signature)
            continue
        dropped.append(viol.signature)
        del report.violations[sig]
    if dropped:
        report.coverage["unconfirmed_dropped"] = dropped
        if not report.violations:
            raise HarnessError(f"violation(s) {dropped[:3]} did not reproduce from their replay data and nothing else was found")
        print(f"note: {len(dropped)} violation signature(s) did not reproduce from their replay data and were dropped: {dropped[:5]}")


def run_e1(spec, tier, depth, state_budget, time_budget, rule, assumptions, level="model_checking", extra_cov=None, post=None):
    report = Report(spec.prop, level, tier)
    explore.run(spec, report, tier, depth, state_budget, time_budget)
    confirm_all(spec, report)
    cov = report.coverage
    wit = cov.get("witnesses", {})
    cov["rule"] = rule
    cov["evaluations"] = cov["transitions"]
    cov["distinct_nontrivial"] = cov["states"]
    if extra_cov:
        cov.update(extra_cov(cov, wit))
    report.assumptions = list(assumptions)
    if post:
        post(report)
    return report.finish()


def replay_history(spec, data):
    """Replay one recorded history on the real code, without exploring. Exit 1 if it reproduces."""
    rep = data["replay"]
    cfg = rep["cfg"]
    hist = tuple(rep["history"])
    collect = []
    world, mon, _, _ = explore.build(spec, cfg, hist, collect)
    probe_viols = []
    if rep.get("kind") == "history+probe" and spec.has_at_state:
        probe_viols = spec.at_state(world, mon, hist, cfg) or []
    world.close()
    from .world import cleanup_process_scratch

    cleanup_process_scratch()
    sigs = {v.signature for v in collect} | {v.signature for v in probe_viols}
    print(f"replayed {len(hist)} events on cfg {cfg}; violations seen: {sorted(sigs)}")
    if data["signature"] in sigs:
        print(f"VIOLATION property={data['property']} replay=<replayed>")
        print(f"  {data['message']}")
        return 1
    print("did not reproduce on the current tree")
    return 0
