"""C10 cross-check: run TLC on spec/OtaSession.tla, dump the complete labelled state graph and replay
EVERY edge of it on the real gateway, comparing the reply kind and the abstracted implementation state
with the edge's target state."""
import collections
import os
import re
import shutil
import subprocess
import tempfile

from . import alpha
from .common import ROOT, HarnessError, Violation, short
from .ref_codec import hex_to_words, words_to_hex
from .world import World, cleanup_process_scratch

PROP = "C10"
NODE = {"A": 1, "B": 2}
STATE_RE = re.compile(r'^(-?\d+) \[label="(.*?)",(?:style|tooltip)')
EDGE_RE = re.compile(r'^(-?\d+) -> (-?\d+) \[label="(\w+)\(\\"(\w)\\"\)"')


def run_tlc():
    tlc = shutil.which("tlc")
    if tlc is None:
        raise HarnessError("tlc not on PATH")
    work = tempfile.mkdtemp(prefix="verif-tlc-")
    try:
        for name in ("OtaSession.tla", "OtaSession.cfg"):
            shutil.copy(os.path.join(ROOT, "spec", name), work)
        dump = os.path.join(work, "graph")
        proc = subprocess.run(
            [tlc, "-workers", "1", "-noGenerateSpecTE", "-metadir", os.path.join(work, "meta"), "-deadlock", "-dump", "dot,actionlabels", dump, "OtaSession"],
            cwd=work, capture_output=True, text=True, timeout=600,
            # TLC's JVM leaves a tlc-<n> directory in java.io.tmpdir: keep it inside the work directory removed below
            env=dict(os.environ, JAVA_TOOL_OPTIONS=(os.environ.get("JAVA_TOOL_OPTIONS", "") + f" -Djava.io.tmpdir={work}").strip()),
        )
        out = proc.stdout + proc.stderr
        if "No error has been found" not in out:
            raise HarnessError("TLC did not finish cleanly: " + out[-600:])
        m = re.search(r"(\d+) states generated, (\d+) distinct states found", out)
        with open(dump + ".dot", encoding="utf-8") as fh:
            text = fh.read()
        return text, (int(m.group(1)), int(m.group(2))) if m else (0, 0)
    finally:
        shutil.rmtree(work, ignore_errors=True)


def parse_state(label):
    label = label.replace("\\n", "\n").replace('\\"', '"').replace("\\\\", "\\")
    last = re.search(r'last = <<"(\w+)", "([\w-]+)", "([\w-]+)">>', label)
    phase = dict(re.findall(r'(\w) \|-> "(\w+)"', label.split("phase =")[1].split("reboot =")[0]))
    reboot = {k: v == "TRUE" for k, v in re.findall(r"(\w) \|-> (TRUE|FALSE)", label.split("reboot =")[1])}
    return {"last": last.groups(), "phase": phase, "reboot": reboot}


def parse_graph(text):
    states, edges = {}, []
    for line in text.splitlines():
        m = EDGE_RE.match(line)
        if m:
            edges.append((m.group(1), m.group(2), m.group(3), m.group(4)))
            continue
        m = STATE_RE.match(line)
        if m and m.group(1) not in states:
            states[m.group(1)] = parse_state(m.group(2))
    return states, edges


def event_for(action, node):
    n = NODE[node]
    t = alpha.lines("2.2")
    if action == "Update":
        return ("fw", n, 1, 1, "F1")
    if action == "UpdateUnknownFw":
        return ("fw", n, 7, 7, None)
    if action == "ConfigReq":
        return ("rx", f"{n};255;4;0;0;" + words_to_hex(1, 0, 8, 0xABCD, 0x0102))
    if action == "BlockReq":
        return ("rx", f"{n};255;4;0;2;" + words_to_hex(1, 1, 3))
    if action == "BadReq":
        return ("rx", f"{n};255;4;0;2;" + words_to_hex(1, 1, 3)[:-1])
    if action == "SetMsg":
        return ("rx", f"{n};0;1;0;2;1")
    if action == "Present":
        return ("rx", f"{n};255;0;0;17;2.2")
    raise ValueError(action)


def reply_kind(obs):
    lines = obs.lines()
    if not lines:
        return "silence"
    if len(lines) > 1:
        return "many:" + "|".join(lines)
    parts = lines[0].rstrip("\n").split(";")
    if parts[2] == "4" and parts[4] == "1" and hex_to_words(parts[5], 4):
        return "config"
    if parts[2] == "4" and parts[4] == "3":
        return "block"
    if parts[2] == "3" and parts[4] == "13":
        return "reboot"
    return "other:" + lines[0].strip()


def abstract(world):
    ota = world.gw.tasks.ota
    phase, reboot = {}, {}
    for name, nid in NODE.items():
        if nid in ota.requested:
            phase[name] = "requested"
        elif nid in ota.unstarted:
            phase[name] = "offered"
        elif nid in ota.started:
            phase[name] = "fetching"
        else:
            phase[name] = "none"
        reboot[name] = bool(world.gw.sensors[nid].reboot)
    return phase, reboot


ROOT_HISTORY = [("rx", "1;255;0;0;17;2.2"), ("rx", "1;0;0;0;3;"), ("rx", "2;255;0;0;17;2.2"), ("rx", "2;0;0;0;3;")]


def replay_all(report):
    """Returns coverage dict; adds violations to report."""
    text, (generated, distinct) = run_tlc()
    states, edges = parse_graph(text)
    if len(states) != distinct:
        raise HarnessError(f"parsed {len(states)} states from the dump, TLC reports {distinct}")
    init = next(s for s, v in states.items() if v["last"][0] == "Init")
    out_edges = collections.defaultdict(list)
    for a, b, act, node in edges:
        out_edges[a].append((b, act, node))
    # BFS spanning tree: path of (action, node) to every state
    path = {init: []}
    queue = collections.deque([init])
    while queue:
        s = queue.popleft()
        for b, act, node in out_edges[s]:
            if b not in path:
                path[b] = path[s] + [(act, node)]
                queue.append(b)
    if len(path) != len(states):
        raise HarnessError("state graph from TLC is not connected from the initial state")
    replayed = 0
    for s in states:
        # one world per source state, then every outgoing edge from a restored snapshot
        world = World({"version": "2.2", "cb": None})
        try:
            for ev in ROOT_HISTORY + [event_for(a, n) for a, n in path[s]]:
                world.apply(ev)
            got_phase, got_reboot = abstract(world)
            if got_phase != states[s]["phase"] or got_reboot != states[s]["reboot"]:
                report.add(Violation(PROP, "tlc-state-mismatch", f"after {path[s]}: implementation phase/reboot {got_phase}/{got_reboot}, TLA+ state {states[s]['phase']}/{states[s]['reboot']}", {"kind": "tlc", "check": PROP, "path": path[s]}))
                continue
            snap = world.snapshot()
            base = world.key(None)
            for b, act, node in out_edges[s]:
                if snap is not None:
                    world.restore(snap)
                    if world.key(None) != base:
                        snap = None
                if snap is None:
                    world.close()
                    world = World({"version": "2.2", "cb": None})
                    for ev in ROOT_HISTORY + [event_for(a, n) for a, n in path[s]]:
                        world.apply(ev)
                obs = world.apply(event_for(act, node))
                replayed += 1
                target = states[b]
                rep = {"kind": "tlc", "check": PROP, "path": path[s] + [(act, node)]}
                if obs.exc is not None:
                    report.add(Violation(PROP, f"tlc-edge-exception|{act}|{obs.exc['type']}", f"{path[s]} then {act}({node}) raised {obs.exc['type']}: {obs.exc['text']}", rep))
                    break
                kind = reply_kind(obs)
                if kind != target["last"][2]:
                    report.add(Violation(PROP, f"tlc-edge-reply|{act}|expected-{target['last'][2]}", f"{short(path[s], 200)} then {act}({node}): implementation answered {kind}, the TLA+ edge says {target['last'][2]}", rep))
                got_phase, got_reboot = abstract(world)
                if got_phase != target["phase"] or got_reboot != target["reboot"]:
                    report.add(Violation(PROP, f"tlc-edge-state|{act}", f"{short(path[s], 200)} then {act}({node}): implementation state {got_phase}/{got_reboot}, TLA+ target {target['phase']}/{target['reboot']}", rep))
        finally:
            world.close()
    cleanup_process_scratch()
    return {"tlc_states_generated": generated, "tlc_distinct_states": distinct, "tlc_edges": len(edges), "edges_replayed_on_impl": replayed, "spec": "spec/OtaSession.tla"}


def replay_path(path_):
    """Replay one (action, node) path; returns list of (action, node, reply kind, phase, reboot)."""
    world = World({"version": "2.2", "cb": None})
    out = []
    try:
        for ev in ROOT_HISTORY:
            world.apply(ev)
        for act, node in path_:
            obs = world.apply(event_for(act, node))
            out.append((act, node, reply_kind(obs) if obs.exc is None else f"EXC {obs.exc['type']}", abstract(world)))
    finally:
        world.close()
        cleanup_process_scratch()
    return out
