"""R-VALID: reference validator written from the statement of C03 and the MySensors serial API.

No voluptuous, nothing imported from ``mysensors``. Golden tables: per protocol version the defined
sub-type numbers of each command and the *name of the payload rule* of each. ``ref_accepts``
returns ACCEPT, REJECT or UNSPEC (statement silent; monitors skip those).
"""
import re

from .ref_codec import parse_version

ACCEPT, REJECT, UNSPEC = "ACCEPT", "REJECT", "UNSPEC"
VERSIONS = ("1.4", "1.5", "2.0", "2.1", "2.2")

# ---- payload rules ---------------------------------------------------------------------------


def _int(p):
    try:
        return int(p)
    except (ValueError, TypeError):
        return None


def _float(p):
    try:
        return float(p)
    except (ValueError, TypeError, OverflowError):
        return None


_HEX = re.compile(r"^[0-9a-fA-F]*$")


def _rule_version(p):
    if p == "":
        return REJECT
    pre = re.fullmatch(r"([0-9]+(?:\.[0-9]+)*)[-.]?(?:a|b|rc|alpha|beta|dev)(?:[-.]?[0-9]+)?", p)
    if pre is not None:
        # a pre-release of X sorts before X and after every release below X (PEP 440 and semver agree)
        tup = parse_version(pre.group(1))
        tup = tup + (0,) * (3 - len(tup))
        return ACCEPT if tup > (1, 4, 0) else REJECT
    if re.fullmatch(r"[0-9]+(\.[0-9]+)*", p) is None:
        return UNSPEC  # 'latest', blanks, Unicode digits, build suffixes: the statement is silent
    tup = parse_version(p)
    tup = tup + (0,) * (3 - len(tup))
    return ACCEPT if tup >= (1, 4, 0) else REJECT


def _b(cond):
    return ACCEPT if cond else REJECT


def _gps(p):
    parts = p.split(",")
    return _b(len(parts) == 3 and all(_float(x) is not None for x in parts))


RULES = {
    "ANY": lambda p: ACCEPT,
    "EMPTY": lambda p: _b(p == ""),
    "BINARY": lambda p: _b(p in ("0", "1")),
    "PERCENT_INT": lambda p: _b(_int(p) is not None and 0 <= _int(p) <= 100),
    "UNIT_FLOAT_0_100": lambda p: _b(_float(p) is not None and 0.0 <= _float(p) <= 100.0),
    "SIGNED_UNIT": lambda p: _b(_float(p) is not None and -1.0 <= _float(p) <= 1.0),
    "HVAC_FLOW_STATE": lambda p: _b(p in ("Off", "HeatOn", "CoolOn", "AutoChangeOver")),
    "HVAC_SPEED": lambda p: _b(p in ("Min", "Normal", "Max", "Auto")),
    "RGB6": lambda p: _b(len(p) == 6 and _HEX.match(p) is not None),
    "RGBW8": lambda p: _b(len(p) == 8 and _HEX.match(p) is not None),
    "GPS3": _gps,
    "INT": lambda p: _b(_int(p) is not None),
    "ID_1_254": lambda p: _b(_int(p) is not None and 1 <= _int(p) <= 254),
    "ID_0_254": lambda p: _b(_int(p) is not None and 0 <= _int(p) <= 254),
    "CONFIG": lambda p: _b(p in ("M", "I") or (_int(p) is not None and 0 <= _int(p) <= 254)),
    "TIME": lambda p: _b(p == "" or _int(p) is not None),
    "VERSION_GE_1_4": _rule_version,
}

# ---- golden tables ---------------------------------------------------------------------------
# command numbers: 0 presentation, 1 set, 2 req, 3 internal, 4 stream


def _fill(n, default="ANY", **special):
    table = {i: default for i in range(n)}
    for key, rule in special.items():
        table[int(key[1:])] = rule
    return table


def _merge(base, older):
    out = dict(base)
    out.update(older)
    return out


_SET_14 = _fill(
    40,
    _2="BINARY", _3="PERCENT_INT", _15="BINARY", _16="BINARY", _21="HVAC_FLOW_STATE",
    _22="BINARY", _23="UNIT_FLOAT_0_100", _36="BINARY",
)
_SET_15 = _merge(_fill(47), _SET_14)
_SET_15.update({22: "HVAC_SPEED", 40: "RGB6", 41: "RGBW8", 42: "ANY", 43: "ANY", 44: "UNIT_FLOAT_0_100", 45: "UNIT_FLOAT_0_100", 46: "ANY"})
_SET_20 = _merge(_fill(57), _SET_15)
_SET_20.update({49: "GPS3", 56: "SIGNED_UNIT"})

_INT_14 = _fill(
    15,
    _0="PERCENT_INT", _1="TIME", _3="EMPTY", _4="ID_1_254", _5="BINARY", _6="CONFIG", _7="EMPTY",
    _8="ID_0_254", _13="EMPTY",
)
_INT_15 = _merge(_fill(18), _INT_14)
_INT_20 = _merge(_fill(29), _INT_15)
_INT_20.update({18: "EMPTY", 19: "EMPTY", 20: "EMPTY", 21: "ID_0_254", 22: "INT", 24: "INT", 25: "INT"})
_INT_22 = _merge(_fill(34), _INT_20)
_INT_22.update({30: "INT", 31: "INT", 32: "INT", 33: "INT"})

_STREAM = _fill(6)


def _pres(n):
    return _fill(n, _17="VERSION_GE_1_4", _18="VERSION_GE_1_4")


def _req(setreq):
    return {k: "EMPTY" for k in setreq}


TABLES = {
    "1.4": {0: _pres(26), 1: _SET_14, 2: _req(_SET_14), 3: _INT_14, 4: _STREAM},
    "1.5": {0: _pres(36), 1: _SET_15, 2: _req(_SET_15), 3: _INT_15, 4: _STREAM},
    "2.0": {0: _pres(40), 1: _SET_20, 2: _req(_SET_20), 3: _INT_20, 4: _STREAM},
    "2.1": {0: _pres(40), 1: _SET_20, 2: _req(_SET_20), 3: _INT_20, 4: _STREAM},
    "2.2": {0: _pres(40), 1: _SET_20, 2: _req(_SET_20), 3: _INT_22, 4: _STREAM},
}

I_ID_REQUEST, I_ID_RESPONSE = 3, 4

# value types allowed per presentation type (child-value schema), per version. S_CUSTOM's types are
# allowed for every child.
_VT_14 = {
    0: [16, 15], 1: [16, 15], 2: [16, 15], 3: [2, 17], 4: [2, 3, 17], 5: [29, 30, 31, 3], 6: [0], 7: [1],
    8: [4, 5], 9: [8, 9, 10], 10: [6, 7], 11: [11], 12: [12, 14], 13: [17, 18], 14: [21, 22, 0], 15: [13],
    16: [23], 17: [], 18: [], 19: [36], 20: [32, 33], 21: [34, 35], 22: [37], 23: [24, 25, 26, 27, 28],
    24: [37], 25: [19, 20],
}
_VT_15 = {
    0: [16, 15], 1: [16, 15], 2: [16, 15], 3: [2, 17], 4: [2, 3, 17], 5: [29, 30, 31, 3], 6: [0, 42, 43],
    7: [1, 43], 8: [4, 5, 43], 9: [8, 9, 10, 43], 10: [6, 7, 43], 11: [11, 43], 12: [12, 14, 43],
    13: [17, 18, 43], 14: [2, 0, 45, 21], 15: [13, 43], 16: [23, 37, 43], 17: [], 18: [], 19: [36],
    20: [32, 33], 21: [34, 35, 43], 22: [37, 43], 23: [24, 25, 26, 27, 28, 43], 24: [37, 43], 25: [19, 20],
    26: [40, 17, 3], 27: [41, 17, 3], 28: [40, 43], 29: [2, 0, 45, 44, 21, 46, 22], 30: [38, 39, 14, 43],
    31: [2, 16], 32: [16, 15], 33: [37, 16, 15, 43], 34: [37, 16, 15, 43], 35: [37, 16, 15, 43],
}
_VT_20 = dict(_VT_15)
_VT_20.update({
    13: [17, 18, 54, 55, 56, 43], 20: [32, 33, 50], 23: [24, 25, 26, 27, 28, 48, 43], 36: [47],
    37: [34, 35, 43], 38: [49], 39: [0, 51, 52, 53, 2, 43],
})
VALUE_TYPES = {"1.4": _VT_14, "1.5": _VT_15, "2.0": _VT_20, "2.1": _VT_20, "2.2": _VT_20}
S_CUSTOM = 23


def norm_version(version):
    return version if version in TABLES else None


def defined(version, cmd, sub):
    return cmd in TABLES[version] and sub in TABLES[version][cmd]


def payload_rule(version, cmd, sub):
    return TABLES[version][cmd][sub]


def ref_accepts(version, node, child, cmd, ack, sub, payload):
    """Verdict of the reference validator for one decoded line."""
    table = TABLES[version]
    if not 0 <= node <= 255:
        return REJECT
    if cmd not in table:
        return REJECT
    if ack not in (0, 1):
        return REJECT
    if sub not in table[cmd]:
        return REJECT
    unspec = False
    if cmd == 3 and sub in (I_ID_REQUEST, I_ID_RESPONSE):
        if not 0 <= child <= 255:
            unspec = True  # the statement does not say; the code accepts any integer here
    elif cmd in (3, 4):
        if child != 255:
            return REJECT
    else:
        if not 0 <= child <= 255:
            return REJECT
        if child == 255 and cmd != 0:
            return REJECT
    verdict = RULES[table[cmd][sub]](payload)
    if verdict == REJECT:
        return REJECT
    if unspec or verdict == UNSPEC:
        return UNSPEC
    return ACCEPT


def ref_accepts_line(version, line):
    """Decode with the independent decoder, then judge. Malformed lines are REJECT."""
    from .ref_codec import Malformed, decode_line

    try:
        fields = decode_line(line)
    except Malformed:
        return REJECT
    return ref_accepts(version, *fields)


def ref_child_accepts(version, ptype, vt, payload):
    """Child-value schema: vt allowed for presentation type ptype (or for S_CUSTOM) and payload ok."""
    table = VALUE_TYPES[version]
    if ptype not in table:
        return UNSPEC
    allowed = set(table[ptype]) | set(table[S_CUSTOM])
    if vt not in allowed:
        return REJECT
    return RULES[TABLES[version][1][vt]](payload)
