"""CLI: ./check <ID> [--tier quick|thorough] | --replay <file> | --selftest"""
import argparse
import importlib
import json
import os
import sys
import traceback

from .common import HarnessError, unjson


def load_check(prop):
    return importlib.import_module(f"mc.checks.{prop.lower()}")


def _sweep_scratch():
    """Remove scratch directories of this run's (now dead) worker processes and of any earlier dead run."""
    import shutil

    from .common import scratch_root

    root = scratch_root()
    try:
        names = os.listdir(root)
    except OSError:
        return
    for name in names:
        if not name.startswith("verif-pymys-"):
            continue
        pid = name.rsplit("-", 1)[1]
        if pid.isdigit() and (int(pid) == os.getpid() or not os.path.isdir(f"/proc/{pid}")):
            shutil.rmtree(os.path.join(root, name), ignore_errors=True)


def main(argv=None):
    try:
        return _main(argv)
    finally:
        _sweep_scratch()


def _main(argv=None):
    parser = argparse.ArgumentParser(prog="check")
    parser.add_argument("prop", nargs="?")
    parser.add_argument("--tier", default=os.environ.get("VERIF_TIER", "quick"), choices=["quick", "thorough"])
    parser.add_argument("--replay")
    parser.add_argument("--selftest", action="store_true")
    args = parser.parse_args(argv)
    try:
        if args.selftest:
            from . import selftest

            return selftest.main()
        if args.replay:
            with open(args.replay, encoding="utf-8") as fh:
                data = json.load(fh)
            mod = load_check(data["property"])
            return mod.replay(unjson(data))
        if not args.prop:
            parser.error("property id required")
        mod = load_check(args.prop.upper())
        return mod.run(args.tier)
    except HarnessError as exc:
        print(f"HARNESS-ERROR: {exc}")
        return 2
    except Exception:  # pylint: disable=broad-except
        traceback.print_exc()
        print("HARNESS-ERROR: unexpected exception in the checker itself")
        return 2


if __name__ == "__main__":
    sys.exit(main())
