"""Independent codecs used as oracles. Nothing here imports from ``mysensors``."""
import re

CANON_LINE = re.compile(r"^-?[0-9]+(;-?[0-9]+){4};[^\n]*\n$")


class Malformed(Exception):
    pass


def py_int(text):
    """An integer spelling exactly as Python's int() accepts it (the statement of C02 says so)."""
    try:
        return int(text)
    except (ValueError, TypeError):
        raise Malformed(text) from None


def decode_line(line):
    """Independent decoder of one command line: rstrip, split on ';', last is payload, five ints.

    Returns (node, child, cmd, ack, sub, payload) or raises Malformed.
    """
    if not isinstance(line, str):
        raise Malformed(repr(line))
    body = line.rstrip()
    parts = body.split(";")
    if len(parts) != 6:
        raise Malformed(line)
    payload = parts[5]
    head = [py_int(p) for p in parts[:5]]
    return (head[0], head[1], head[2], head[3], head[4], payload)


def encode_line(node, child, cmd, ack, sub, payload):
    return f"{int(node)};{int(child)};{int(cmd)};{int(ack)};{int(sub)};{payload}\n"


def split_lines(data):
    """Independent framing: complete newline-terminated lines of a byte stream (C19 reference)."""
    out = []
    buf = bytearray()
    for b in data:
        if b == 0x0A:
            out.append(bytes(buf).decode("utf-8", "replace"))
            buf = bytearray()
        else:
            buf.append(b)
    return out, bytes(buf)


# ------------------------------------------------------------------------------------------
# CRC-16/MODBUS, bitwise, reflected polynomial 0xA001, init 0xFFFF, no final xor


def crc16_modbus(data):
    crc = 0xFFFF
    for byte in data:
        crc ^= byte
        for _ in range(8):
            if crc & 1:
                crc = (crc >> 1) ^ 0xA001
            else:
                crc >>= 1
    return crc


# ------------------------------------------------------------------------------------------
# Intel HEX writer (independent of the intelhex package)


def _rec(addr, rtype, data):
    body = bytes([len(data), (addr >> 8) & 0xFF, addr & 0xFF, rtype]) + bytes(data)
    chk = (-sum(body)) & 0xFF
    return ":" + (body + bytes([chk])).hex().upper()


def intel_hex(image, rec_size=16, ela=False, order=None):
    """Return the text of an Intel-HEX file that encodes exactly ``image`` starting at address 0.

    rec_size: data bytes per record; ela: emit an extended-linear-address record first;
    order: optional permutation function applied to the list of data records.
    """
    recs = []
    for off in range(0, len(image), rec_size):
        recs.append(_rec(off & 0xFFFF, 0, image[off : off + rec_size]))
    if order is not None:
        recs = order(recs)
    lines = []
    if ela:
        lines.append(_rec(0, 4, b"\x00\x00"))
    lines.extend(recs)
    lines.append(_rec(0, 1, b""))
    return "\n".join(lines) + "\n"


# ------------------------------------------------------------------------------------------
# Firmware request / response packing: little-endian 16-bit words as hex


def words_to_hex(*words):
    out = bytearray()
    for w in words:
        out.append(w & 0xFF)
        out.append((w >> 8) & 0xFF)
    return out.hex()


def hex_to_words(text, count):
    """Strict: exactly ``count`` 16-bit words as hex, else None."""
    if not isinstance(text, str) or len(text) != 4 * count:
        return None
    try:
        raw = bytes.fromhex(text)
    except ValueError:
        return None
    if len(raw) != 2 * count or re.fullmatch(r"[0-9a-fA-F]*", text) is None:
        return None
    return tuple(raw[2 * i] | (raw[2 * i + 1] << 8) for i in range(count))


# ------------------------------------------------------------------------------------------
# MQTT topic codec


def mqtt_topic_of(prefix, node, child, cmd, ack, sub):
    return f"{prefix}/{int(node)}/{int(child)}/{int(cmd)}/{int(ack)}/{int(sub)}"


def mqtt_accepts(in_prefix, topic):
    """A topic is accepted iff it is the inbound prefix + '/' + exactly five levels."""
    head = in_prefix + "/"
    if not topic.startswith(head):
        return None
    rest = topic[len(head) :]
    levels = rest.split("/")
    if len(levels) != 5:
        return None
    return levels


def mqtt_match(filt, topic):
    """MQTT wildcard matching: '+' one level, '#' the rest."""
    f = filt.split("/")
    t = topic.split("/")
    for i, lev in enumerate(f):
        if lev == "#":
            return True
        if i >= len(t):
            return False
        if lev != "+" and lev != t[i]:
            return False
    return len(f) == len(t)


# ------------------------------------------------------------------------------------------
# Version comparison: tuple of ints, missing patch = 0

SUPPORTED = ((1, 4), (1, 5), (2, 0), (2, 1), (2, 2))


def parse_version(text):
    """Return a tuple of ints for 'major.minor[.patch...]', else None."""
    if not isinstance(text, str):
        return None
    if re.fullmatch(r"\d+(\.\d+)*", text) is None:
        return None
    return tuple(int(p) for p in text.split("."))


def version_floor(text):
    """Highest supported version not above ``text`` numerically; '1.4' for older/unparsable."""
    tup = parse_version(text)
    if tup is None:
        return "1.4"
    tup = tup + (0,) * (3 - len(tup))
    best = (1, 4)
    for sup in SUPPORTED:
        if sup + (0,) <= tup[:3] or (sup + (0,) == tup[:3]):
            best = sup
    return f"{best[0]}.{best[1]}"
