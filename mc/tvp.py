"""Helper for 'another thread against the poll thread' parts (E2): explores every schedule of a small two-thread
harness up to a preemption bound, split over the worker pool, and feeds findings into a Report.

A check supplies
  run_one(name, prefix) -> finished Scheduler; findings are left in ``sched.findings``: a list of
                           (signature-suffix, message) judged by the harness' own epilogue/oracle
  scenarios             -> iterable of names
"""
import collections
import multiprocessing
import time

from . import sched as S
from .common import NPROC, Violation

_RUN_ONE = {}


def _part(args):
    key, name, bound, roots, deadline, limit = args
    run_one = _RUN_ONE[key]
    res = S.Result()
    found = {}
    outcomes = collections.Counter()

    def check(sched):
        findings = list(getattr(sched, "findings", []))
        outcomes[(tuple(e[2] for e in sched.log if e[0] == "write"), tuple(f[0] for f in findings))] += 1
        npre = S.preemptions(sched.points, len(sched.points))
        for suffix, msg in findings:
            sig = f"{suffix}|threaded|{name}"
            if sig not in found or npre < found[sig][2]:
                found[sig] = (msg, list(sched.choices), npre)
        for e in sched.log:
            if e[0] in ("pump-raised", "call-raised"):
                found.setdefault(f"{e[0]}|{e[1]}@{e[3]}|threaded|{name}", (f"{e[1]}: {e[2]} at {e[3]}", list(sched.choices), npre))
        if sched.problem in ("deadlock", "horizon"):
            found.setdefault(f"{sched.problem}|threaded|{name}", (f"execution ended in {sched.problem}", list(sched.choices), 0))

    complete, leftover = S.explore(lambda p: run_one(name, p), check, bound, res, deadline=deadline, roots=roots, expand_limit=limit)
    return name, complete, leftover, res.executions, res.points, found, len(outcomes)


def run_scenarios(report, prop, key, run_one, scenarios, bound, seconds, rule):
    """Explore every scenario; returns the coverage dict. ``key`` identifies run_one in forked workers."""
    _RUN_ONE[key] = run_one
    deadline = time.time() + seconds
    ctx = multiprocessing.get_context("fork")
    per = {}
    total = {"executions": 0, "points": 0}

    def add(name, found):
        for sig, (msg, choices, npre) in found.items():
            report.add(Violation(prop, sig, f"{msg} (schedule with {npre} preemption(s))", {"kind": "schedule", "check": prop, "part": key, "scenario": name, "choices": choices}))

    with ctx.Pool(NPROC) as pool:
        parts = []
        for name, complete, leftover, execs, points, found, nout in pool.imap(_part, [(key, n, bound, None, deadline, 20) for n in scenarios]):
            per[name] = {"schedules": execs, "complete": complete, "distinct_outcomes": nout}
            total["executions"] += execs
            total["points"] += points
            add(name, found)
            chunks = [leftover[i::6] for i in range(6)]
            parts += [(key, name, bound, ch, deadline, None) for ch in chunks if ch]
        for name, complete, leftover, execs, points, found, nout in pool.imap_unordered(_part, parts):
            per[name]["schedules"] += execs
            per[name]["complete"] = per[name]["complete"] and complete
            per[name]["distinct_outcomes"] = max(per[name]["distinct_outcomes"], nout)
            total["executions"] += execs
            total["points"] += points
            add(name, found)
    caps = [f"{n}: time cap hit before all schedules with <= {bound} preemption(s) were run" for n, p in per.items() if not p["complete"]]
    return {"preemption_bound": bound, "schedules": total["executions"], "scheduling_decisions": total["points"], "scenarios": per, "caps_hit": caps, "rule": rule}


def replay_schedule(run_one, rep, prop):
    sched = run_one(rep["scenario"], list(rep["choices"]))
    findings = list(getattr(sched, "findings", []))
    raised = [e for e in sched.log if e[0] in ("pump-raised", "call-raised")]
    print(f"schedule replayed ({len(sched.points)} points); writes: {[e[2] for e in sched.log if e[0] == 'write']}; findings: {findings}; exceptions: {raised}")
    if findings or raised:
        print(f"VIOLATION property={prop} replay=<replayed>")
        return 1
    print("did not reproduce on the current tree")
    return 0
