"""R-MODEL: a deliberately boring reference gateway, written from the statements of C04, C05, C07,
C08 and C10 (DESIGN.md appendix A). Shares no code and no structure with ``mysensors``.

``RefGateway.step(ev, observed_lines)`` advances the model by one event and returns an ``Expect``.
Where the specification is nondeterministic (which id an id request gets) the model takes the
observed value, checks the constraints, and continues with it.
"""
import copy

from . import ref_valid
from .ref_codec import Malformed, crc16_modbus, decode_line, hex_to_words, parse_version, words_to_hex

UNSPEC = "UNSPEC"


def vtuple(version):
    return tuple(int(x) for x in version.split("."))


class Node:
    def __init__(self, nid):
        self.nid = nid
        self.type = None
        self.proto = "1.4"
        self.sketch_name = None
        self.sketch_version = None
        self.battery = 0
        self.heartbeat = 0
        self.children = {}  # c -> {"type":, "desc":, "values": {vt:int -> str}}
        self.reg = set()  # children registered for smart sleep (seen at a wake-up)
        self.desired = {}  # c -> {vt -> value}
        self.held = []  # withheld lines, oldest first
        self.reboot = False
        self.phase = "none"  # none | requested | offered | fetching
        self.fw = None
        self.ever_scheduled = False

    @property
    def asleep(self):
        return bool(self.reg)

    def reset_transient(self):
        self.reg = set()
        self.desired = {}
        self.held = []
        self.reboot = False


class Expect:
    def __init__(self):
        self.accepted = None  # for rx: True / False (rejected or malformed) / UNSPEC
        self.emits = []  # ordered lines (decoded field tuples, ack masked by comparison)
        self.emits_any = []  # then these, in any order
        self.callbacks = 0  # exact count, or UNSPEC
        self.cb_fields = None
        self.must_raise = False  # controller call must raise to the caller and change nothing
        self.may_raise = False  # refusal is UNSPEC
        self.content_unspec = False  # OTA reply content not prescribed (but totality and gating are)
        self.concerned = None  # node the step concerns
        self.kind = ""  # abstract kind of the event (for signatures)
        self.wake = False
        self.id_response = None
        self.ota = False


def padded(image):
    """What the statement of C09 allows: 0xFF padding up to (at most) one page."""
    return image


class RefGateway:
    def __init__(self, version, images=None):
        self.version = version
        self.vt = vtuple(version)
        self.ge20 = self.vt >= (2, 0)
        self.wake_sub = 22 if self.vt in ((2, 0), (2, 1)) else (32 if self.vt >= (2, 2) else None)
        self.nodes = {}
        self.firmware = {}  # (type, ver) -> image bytes as loaded
        self.metric = True
        self.handed_out = set()
        self.epoch = None
        self.utc_offset = None
        self.images = images or {}

    def clone(self):
        return copy.deepcopy(self)

    # -- helpers -----------------------------------------------------------------------------

    def route(self, exp, line_fields):
        """A line the gateway wants to send: withheld for sleeping nodes unless stream."""
        node, child, cmd, ack, sub, payload = line_fields
        if cmd == 0:
            return
        dest = self.nodes.get(node)
        if dest is not None and dest.asleep and cmd != 4:
            dest.held.append(line_fields)
            return
        exp.emits.append(line_fields)

    def presreq(self, exp, nid):
        if self.ge20:
            self.route(exp, (nid, 255, 3, 0, 19, ""))

    def known(self, nid, cid=None):
        if nid not in self.nodes:
            return False
        if cid is not None and cid not in self.nodes[nid].children:
            return False
        return True

    # -- inbound -----------------------------------------------------------------------------

    def rx(self, line, observed, parked=None):
        """``parked``: lines the implementation newly withheld for sleeping nodes in this step (decoded), per node id.
        Only the id request uses it: the id is the implementation's choice also when its response is withheld."""
        self._parked = parked or {}
        exp = Expect()
        try:
            fields = decode_line(line)
        except Malformed:
            exp.accepted = False
            exp.kind = "rx malformed"
            return exp
        verdict = ref_valid.ref_accepts(self.version, *fields)
        node, child, cmd, ack, sub, payload = fields
        exp.concerned = node
        exp.kind = self.kind_of(fields)
        if verdict == ref_valid.REJECT:
            exp.accepted = False
            exp.kind = "rx invalid " + exp.kind
            return exp
        if verdict == ref_valid.UNSPEC:
            exp.accepted = UNSPEC
            return exp
        exp.accepted = True
        if cmd == 0:
            self.rx_presentation(exp, fields)
        elif cmd == 1:
            self.rx_set(exp, fields)
        elif cmd == 2:
            self.rx_req(exp, fields)
        elif cmd == 3:
            self.rx_internal(exp, fields, observed)
        elif cmd == 4:
            self.rx_stream(exp, fields)
        return exp

    def kind_of(self, fields):
        node, child, cmd, ack, sub, payload = fields
        names = {0: "presentation", 1: "set", 2: "req", 3: "internal", 4: "stream"}
        ncls = "unknown-node"
        if node in self.nodes:
            ncls = "sleeping-node" if self.nodes[node].asleep else "known-node"
        ccls = ""
        if cmd in (1, 2) or (cmd == 0 and child != 255):
            if node in self.nodes:
                n = self.nodes[node]
                if child in n.children:
                    ccls = " known-child" if (not n.asleep or child in n.reg) else " child-after-wakeup"
                else:
                    ccls = " unknown-child"
        sub_txt = f"/{sub}" if cmd in (3, 4) else ""
        if cmd == 0 and child == 255:
            sub_txt = "/node"
        return f"rx {names.get(cmd, cmd)}{sub_txt} {ncls}{ccls}"

    def rx_presentation(self, exp, fields):
        node, child, cmd, ack, sub, payload = fields
        if child == 255:
            n = self.nodes.get(node)
            if n is None:
                n = self.nodes[node] = Node(node)
            n.type = sub
            tup = parse_version(payload)
            if tup is not None:
                n.proto = payload if (tup + (0, 0))[:3] >= (1, 4, 0) else "1.4"
            elif not any(ch.isdigit() for ch in payload) and payload not in ("latest", "dev", "beta", "stable"):
                n.proto = "1.4"
            else:
                n.proto = UNSPEC
            n.reboot = False
            exp.callbacks = 1
            exp.cb_fields = fields
            return
        if node not in self.nodes:
            self.presreq(exp, node)
            return
        n = self.nodes[node]
        if child in n.children:
            return
        n.children[child] = {"type": sub, "desc": payload, "values": {}}
        exp.callbacks = 1
        exp.cb_fields = fields

    def rx_set(self, exp, fields):
        node, child, cmd, ack, sub, payload = fields
        if not self.known(node, child):
            self.presreq(exp, node)
            return
        n = self.nodes[node]
        n.children[child]["values"][sub] = payload
        if child in n.desired:
            n.desired[child].pop(sub, None)
        exp.callbacks = 1
        exp.cb_fields = fields
        if n.reboot:
            self.route(exp, (node, 255, 3, 0, 13, ""))

    def pending(self, n, child, sub):
        if n.asleep and child in n.desired:
            return n.desired[child].get(sub)
        return None

    def rx_req(self, exp, fields):
        node, child, cmd, ack, sub, payload = fields
        if not self.known(node, child):
            self.presreq(exp, node)
            return
        n = self.nodes[node]
        value = self.pending(n, child, sub)
        if value is None:
            value = n.children[child]["values"].get(sub)
        if value is None:
            return
        self.route(exp, (node, child, 1, ack, sub, str(value)))

    def rx_internal(self, exp, fields, observed):
        node, child, cmd, ack, sub, payload = fields
        if sub in (0, 11, 12):
            if not self.known(node):
                self.presreq(exp, node)
                return
            n = self.nodes[node]
            if sub == 0:
                n.battery = int(payload)
            elif sub == 11:
                n.sketch_name = payload
            else:
                n.sketch_version = payload
            exp.callbacks = 1
            exp.cb_fields = fields
        elif sub == 1:
            self.route(exp, (node, 255, 3, 0, 1, str(self.epoch + self.utc_offset)))
        elif sub == 3:
            self.rx_id_request(exp, fields, observed)
        elif sub == 6:
            self.route(exp, (node, 255, 3, 0, 6, "M" if self.metric else "I"))
        elif sub == 14:
            exp.callbacks = UNSPEC
            exp.cb_fields = fields
            if self.ge20:
                self.route(exp, (255, 255, 3, 0, 20, ""))
        elif sub == 21 and self.ge20:
            if not self.known(node):
                self.presreq(exp, node)
        elif sub == 22 and self.ge20:
            if not self.known(node):
                self.presreq(exp, node)
                return
            n = self.nodes[node]
            if self.wake_sub == 22:
                self.wake(exp, n)
            n.heartbeat = int(payload)
            exp.callbacks = 1
            exp.cb_fields = fields
        elif sub == 32 and self.wake_sub == 32:
            exp.callbacks = UNSPEC
            if not self.known(node):
                self.presreq(exp, node)
                return
            self.wake(exp, self.nodes[node])
        elif sub == 9:
            exp.callbacks = UNSPEC
        else:
            pass  # every other internal sub-type: nothing

    def rx_id_request(self, exp, fields, observed):
        """The id is the implementation's choice; check the constraints, then adopt it."""
        node = fields[0]
        exp.callbacks = UNSPEC
        exp.id_response = "none"
        cand = None
        for obs in observed:
            if obs[2] == 3 and obs[4] == 4:
                cand = obs
                break
        dest = self.nodes.get(node)
        if cand is None and dest is not None and dest.asleep:
            # the response is withheld for a sleeping requester: adopt the id from the withheld line
            held = [f for f in getattr(self, "_parked", {}).get(node, []) if f[2] == 3 and f[4] == 4]
            if not held:
                exp.id_response = "withheld"
                return
            cand = held[0]
            exp.id_response = cand[5]
            try:
                pid = int(cand[5])
            except ValueError:
                pid = None
            exp.id_checked = (pid, set(self.nodes), set(self.handed_out))
            if pid is not None:
                if pid not in self.nodes:
                    self.nodes[pid] = Node(pid)
                self.handed_out.add(pid)
            dest.held.append((node, 255, 3, 0, 4, cand[5]))
            return
        if cand is None:
            # silence is allowed when no id can be allocated; an id above every known / handed-out id can
            taken = set(self.nodes) | set(self.handed_out)
            if (max(taken) if taken else 0) < 254:
                exp.id_response = "missing"
            return
        exp.id_response = cand[5]
        try:
            pid = int(cand[5])
        except ValueError:
            pid = None
        exp.id_checked = (pid, set(self.nodes), set(self.handed_out))
        if pid is not None:
            if pid not in self.nodes:
                self.nodes[pid] = Node(pid)
            self.handed_out.add(pid)
        exp.emits.append((node, 255, 3, 0, 4, cand[5]))

    def wake(self, exp, n):
        exp.wake = True
        n.reg |= set(n.children)
        if not n.asleep:
            # a node without children: nothing is ever withheld, nothing to flush
            return
        exp.emits.extend(n.held)
        n.held = []
        for child, info in n.children.items():
            for vt in info["values"]:
                value = n.desired.get(child, {}).get(vt)
                if value is not None:
                    exp.emits_any.append((n.nid, child, 1, 0, vt, str(value)))

    # -- OTA ---------------------------------------------------------------------------------

    def fw_summary(self, image):
        data = image + b"\xff" * ((-len(image)) % 128 or 0)
        return data

    def rx_stream(self, exp, fields):
        node, child, cmd, ack, sub, payload = fields
        exp.ota = True
        if not self.known(node):
            self.presreq(exp, node)
            return
        exp.callbacks = UNSPEC
        exp.cb_fields = fields  # whether it fires is not prescribed; if it does, it carries the inbound message
        n = self.nodes[node]
        if sub == 0:
            words = hex_to_words(payload, 5)
            if words is None:
                exp.kind += " malformed-payload"
                return
            if n.phase in ("requested", "offered") and n.fw in self.firmware:
                n.phase = "offered"
                exp.emits.append(("config", node, n.fw))
        elif sub == 2:
            words = hex_to_words(payload, 3)
            if words is None:
                exp.kind += " malformed-payload"
                return
            rtype, rver, blk = words
            if n.phase in ("offered", "fetching"):
                n.phase = "fetching"
                if (rtype, rver) in self.firmware:
                    exp.emits.append(("block", node, (rtype, rver), blk, (rtype, rver) != n.fw))

    # -- controller --------------------------------------------------------------------------

    def set_child_value(self, nid, cid, vt, value):
        exp = Expect()
        exp.concerned = nid
        exp.kind = "call set_child_value"
        if not self.known(nid, cid):
            exp.kind += " unknown"
            self.presreq(exp, nid)
            return exp
        n = self.nodes[nid]
        try:
            ivt = int(vt)
        except (ValueError, TypeError):
            ivt = None
        text = str(value)
        valid = None
        if ivt is not None:
            wire_ok = ";" not in text and "\n" not in text and "\r" not in text and text == text.rstrip()
            verdict = ref_valid.ref_accepts(self.version, nid, cid, 1, 0, ivt, text)
            valid = verdict == ref_valid.ACCEPT
            exp.wire_ok = wire_ok
        if n.asleep:
            exp.kind += " sleeping-node"
            if cid not in n.reg:
                exp.kind += " child-after-wakeup"
                exp.may_raise = True
                # if accepted, it behaves like a registered child from now on (model follows code)
            if ivt is None or not valid:
                exp.must_raise = True
                return exp
            exp.pending_store = (cid, ivt, value)
            return exp
        if ivt is None or not valid:
            exp.must_raise = True
            return exp
        exp.emits.append((nid, cid, 1, 0, ivt, text))
        return exp

    def commit_desired(self, nid, store):
        cid, ivt, value = store
        self.nodes[nid].desired.setdefault(cid, {})[ivt] = value

    def update_fw(self, nids, fw_type, fw_ver, image_key):
        exp = Expect()
        exp.kind = "call update_fw"
        exp.ota = True
        try:
            ftype, fver = int(fw_type), int(fw_ver)
        except (ValueError, TypeError):
            exp.kind += " bad-type"
            return exp
        if image_key is not None:
            if image_key in ("missing", "invalid"):
                exp.kind += " " + image_key
                return exp
            self.firmware[(ftype, fver)] = self.images[image_key]
        if (ftype, fver) not in self.firmware:
            exp.kind += " no-firmware"
            return exp
        for nid in nids if isinstance(nids, (list, tuple)) else [nids]:
            n = self.nodes.get(nid)
            if n is None:
                continue
            n.phase = "requested"
            n.fw = (ftype, fver)
            n.reboot = True
            n.ever_scheduled = True
        return exp

    def restart(self):
        for n in self.nodes.values():
            n.reset_transient()
            n.phase = "none"
            n.fw = None
        self.firmware = {}
        self.metric = True

    # -- projections -------------------------------------------------------------------------

    def tree(self):
        """Same shape as canon.project_tree, built from the model (type-strict)."""
        from .canon import tval

        out = []
        for nid, n in self.nodes.items():
            children = []
            for cid, info in n.children.items():
                children.append(
                    (
                        tval(cid),
                        (
                            ("id", tval(cid)),
                            ("type", tval(info["type"])),
                            ("description", tval(info["desc"])),
                            ("values", tuple(sorted(((tval(k), tval(v)) for k, v in info["values"].items()), key=repr))),
                        ),
                    )
                )
            out.append(
                (
                    tval(nid),
                    (
                        ("sensor_id", tval(nid)),
                        ("type", tval(n.type)),
                        ("sketch_name", tval(n.sketch_name)),
                        ("sketch_version", tval(n.sketch_version)),
                        ("battery_level", tval(n.battery)),
                        ("protocol_version", tval(n.proto)),
                        ("heartbeat", tval(n.heartbeat)),
                        ("children", tuple(sorted(children, key=repr))),
                    ),
                )
            )
        return tuple(sorted(out, key=repr))

    def key(self):
        items = []
        for nid in sorted(self.nodes):
            n = self.nodes[nid]
            items.append(
                (
                    nid, n.type, n.proto, n.sketch_name, n.sketch_version, n.battery, n.heartbeat,
                    tuple((c, i["type"], i["desc"], tuple(sorted(i["values"].items()))) for c, i in sorted(n.children.items())),
                    tuple(sorted(n.reg)), tuple((c, tuple(sorted(d.items(), key=repr))) for c, d in sorted(n.desired.items())),
                    tuple(n.held), n.reboot, n.phase, n.fw, n.ever_scheduled,
                )
            )
        return (tuple(items), tuple(sorted(self.firmware)), self.metric, tuple(sorted(self.handed_out)))


def config_payload(gwmodel, fwid):
    image = gwmodel.firmware[fwid]
    return fwid, image


def expected_config_fields(node, fwid, image, observed_payload):
    """Check a config response against the statement of C09: returns error text or None."""
    words = hex_to_words(observed_payload, 4)
    if words is None:
        return f"config response payload {observed_payload!r} is not four 16-bit words"
    ftype, fver, blocks, crc = words
    if (ftype, fver) != fwid:
        return f"config response advertises firmware {(ftype, fver)} but {fwid} is scheduled"
    total = 16 * blocks
    if total % 128 != 0 or total < len(image) or total - len(image) > 128:
        return f"block count {blocks} does not fit image of {len(image)} bytes with at most one page of padding"
    data = image + b"\xff" * (total - len(image))
    if crc16_modbus(data) != crc:
        return f"advertised crc {crc:#06x} != CRC-16/MODBUS of the padded image {crc16_modbus(data):#06x}"
    return None


def expected_block_fields(fwid, image, blk, observed_payload):
    head = words_to_hex(fwid[0], fwid[1], blk)
    if not observed_payload.startswith(head):
        return f"block response {observed_payload[:12]!r} does not echo type/version/index {head!r}"
    body = observed_payload[len(head):]
    try:
        raw = bytes.fromhex(body)
    except ValueError:
        return f"block response body {body!r} is not hex"
    want = image[blk * 16 : blk * 16 + 16]
    if len(raw) != 16:
        return f"block {blk} has {len(raw)} bytes"
    want = want + b"\xff" * (16 - len(want))
    if raw != want:
        return f"block {blk} content differs from the image"
    return None
