"""Monitors: run the reference model in lock-step with a real world and judge every step.

One class serves C01/C04/C05/C06/C07/C08/C10/C14; each check enables the clauses its statement
covers. A violation's signature is built from the clause and an abstract kind of the triggering
step, not from where the search happened to find it.
"""
import collections

from . import ref_valid
from .common import Violation, short
from .ref_codec import CANON_LINE, Malformed, decode_line
from .ref_model import UNSPEC, RefGateway, expected_block_fields, expected_config_fields
from .world import FW_IMAGES


def mask_ack(fields):
    return (fields[0], fields[1], fields[2], fields[4], fields[5])


class GatewayMonitor:
    """clauses: subset of {exc, noeffect, tree, callbacks, replies, valid_emit, sleep, wake, ota, ids}."""

    def __init__(self, prop, version, clauses, transport="serial"):
        self.prop = prop
        self.version = version
        self.clauses = set(clauses)
        self.model = RefGateway(version, images=FW_IMAGES)
        self.stats = collections.Counter()
        self.transport = transport
        self.poisoned = False  # model lost track (UNSPEC input): stop judging model clauses
        self.last_key = None

    def key(self):
        return (self.model.key(), self.poisoned)

    def clone(self):
        other = GatewayMonitor.__new__(GatewayMonitor)
        other.prop = self.prop
        other.version = self.version
        other.clauses = self.clauses
        other.model = self.model.clone()
        other.stats = collections.Counter()
        other.transport = self.transport
        other.poisoned = self.poisoned
        other.last_key = self.last_key
        return other

    # -- helpers -----------------------------------------------------------------------------

    def v(self, clause, kind, message, detail=""):
        sig = f"{clause}|{kind}" + (f"|{detail}" if detail else "")
        return Violation(self.prop, sig, message, None)

    def decode_obs(self, obs):
        out = []
        for line in obs.lines():
            try:
                out.append(decode_line(line))
            except Malformed:
                out.append(None)
        return out

    def newly_parked(self, world):
        """Decoded lines the implementation holds for sleeping nodes beyond what the model holds (this step's additions)."""
        out = {}
        for nid, n in self.model.nodes.items():
            if not n.asleep:
                continue
            sensor = world.gw.sensors.get(nid)
            queue = list(getattr(sensor, "queue", ())) if sensor is not None else []
            extra = []
            for text in queue[len(n.held):]:
                try:
                    extra.append(decode_line(text if isinstance(text, str) else str(text)))
                except Malformed:
                    pass
            if extra:
                out[nid] = extra
        return out

    def sync_clock(self, world):
        self.model.epoch = world.epoch
        self.model.utc_offset = world.utc_offset
        self.model.metric = world.gw.metric

    # -- main entry --------------------------------------------------------------------------

    def step(self, world, ev, obs):
        if obs.where == "dead":
            return []
        viols = []
        self.sync_clock(world)
        kind = ev[0]
        if kind == "rx" and len(ev) > 2:
            self.model.epoch, self.model.utc_offset = ev[2], ev[3]
        observed = self.decode_obs(obs)
        if "sleep" in self.clauses and getattr(obs, "wire", None) is not None and self.transport == "serial":
            # whatever reaches the wire in this step was handed to transport.send in this step (nothing is kept back
            # inside the transport and written later, e.g. after a reconnect, when its addressee may be asleep again)
            sent_now = collections.Counter(text for text, _ in obs.sent)
            for text in obs.wire:
                if sent_now[text] > 0:
                    sent_now[text] -= 1
                else:
                    viols.append(self.v("stale-write", ev[0], f"{short(text)!r} was written to the connection in a step that did not emit it (kept back inside the transport from an earlier step)"))
        model_before = None
        if "sleep" in self.clauses or "ids" in self.clauses:
            asleep_before = {nid for nid, n in self.model.nodes.items() if n.asleep}
        else:
            asleep_before = set()
        exp = None
        if kind == "rx":
            line = obs.eff_line if obs.eff_line is not None else ev[1]
            exp = self.model.rx(line, [o for o in observed if o is not None], self.newly_parked(world))
            self.judge_rx(world, ev, obs, exp, observed, viols, asleep_before)
        elif kind == "rx2":
            self.judge_rx2(world, ev, obs, observed, viols)
        elif kind == "set" and len(ev) > 5 and self.model.known(ev[1], ev[2]):
            # controller call with keyword arguments (msg_type=req, ack=...): no reference reply is prescribed; what is
            # judged is model-free - nothing leaves for a node that is asleep, nothing fails in the pump
            self.stats["set_calls_with_keywords"] += 1
            if obs.exc is not None and obs.where == "pump" and "exc" in self.clauses:
                self.exc_violation(obs, "call set_child_value keywords (pump)", viols)
            if "sleep" in self.clauses:
                for (text, cause), fields in zip(obs.sent, observed):
                    if fields is not None:
                        self.check_sleep_invariant(fields, cause, asleep_before, viols, "call set_child_value keywords")
            if obs.exc is None:
                self.poisoned = True  # the call may have stored something the model does not track
            return viols
        elif kind == "set":
            exp = self.model.set_child_value(ev[1], ev[2], ev[3], ev[4])
            self.judge_set(world, ev, obs, exp, observed, viols, asleep_before)
        elif kind == "fw":
            exp = self.model.update_fw(list(ev[1]) if isinstance(ev[1], (tuple, list)) else ev[1], ev[2], ev[3], ev[4])
            self.judge_call(world, ev, obs, exp, observed, viols, asleep_before)
        elif kind == "topic":
            # MQTT: a raw topic. Only topics that are NOT of the subscribed shape (prefix + five levels) are judged here.
            pre = world.in_prefix
            rest = ev[1][len(pre) + 1 :] if ev[1].startswith(pre + "/") else None
            if rest is None or len(rest.split("/")) != 5:
                if obs.exc is not None:
                    if "exc" in self.clauses:
                        viols.append(self.v("exception", "mqtt odd topic", f"topic {ev[1]!r} (qos {ev[3]}): {obs.exc['type']}: {obs.exc['text']} escaped from MQTTTransport.recv at {obs.exc['site']}", f"{obs.exc['type']}@{obs.exc['site']}"))
                elif "noeffect" in self.clauses and (obs.sent or obs.pubs or obs.callbacks or (self.last_key is not None and world.key(None) != self.last_key)):
                    viols.append(self.v("rejected-topic-has-effect", "mqtt odd topic", f"topic {ev[1]!r} (qos {ev[3]}) is not of the subscribed shape but changed the state or produced output {obs.lines()}"))
            return viols
        elif kind in ("metric", "clock"):
            self.sync_clock(world)
        elif kind == "restart":
            self.model.restart()
            if obs.exc is not None and "exc" in self.clauses:
                viols.append(self.v("exception", "restart", f"stop/restart raised {obs.exc['type']}: {obs.exc['text']} at {obs.exc['site']}", f"{obs.exc['type']}@{obs.exc['site']}"))
        elif kind in ("tick", "tickfail"):
            if obs.exc is not None and "exc" in self.clauses:
                viols.append(self.v("exception", "tick", f"scheduled save raised {obs.exc['type']}: {obs.exc['text']} at {obs.exc['site']}", f"{obs.exc['type']}@{obs.exc['site']}"))
        if kind in ("set", "fw", "rx", "rx2") and not self.poisoned:
            self.judge_state(world, ev, obs, exp, viols)
        if "noeffect" in self.clauses:
            self.last_key = world.key(None)
        return viols

    # -- per-kind judgement ------------------------------------------------------------------

    def exc_violation(self, obs, kind, viols):
        e = obs.exc
        viols.append(
            self.v(
                "exception",
                kind,
                f"{e['type']}: {e['text']} escaped at {e['site']} ({obs.where}) on step kind '{kind}'",
                f"{e['type']}@{e['site']}",
            )
        )

    def judge_rx(self, world, ev, obs, exp, observed, viols, asleep_before):
        self.stats["rx_steps"] += 1
        if exp.accepted is UNSPEC or exp.accepted == UNSPEC:
            self.stats["unspec_rx"] += 1
            self.poisoned = True
            if obs.exc is not None and "exc" in self.clauses:
                self.exc_violation(obs, exp.kind, viols)
            return
        if obs.exc is not None:
            if "exc" in self.clauses:
                self.exc_violation(obs, exp.kind, viols)
            return
        if exp.accepted is False:
            self.stats["rejected_lines"] += 1
            if "noeffect" in self.clauses or "replies" in self.clauses or "callbacks" in self.clauses:
                if obs.sent:
                    viols.append(self.v("rejected-line-has-reply", exp.kind, f"rejected line {short(ev[1])!r} produced {obs.lines()}"))
                if obs.callbacks:
                    viols.append(self.v("rejected-line-has-callback", exp.kind, f"rejected line {short(ev[1])!r} fired {len(obs.callbacks)} callback(s)"))
            if "noeffect" in self.clauses and self.last_key is not None:
                if world.key(None) != self.last_key:
                    viols.append(self.v("rejected-line-changes-state", exp.kind, f"rejected line {short(ev[1])!r} changed the gateway state"))
            return
        self.stats["accepted_lines"] += 1
        self.judge_emissions(world, ev, obs, exp, observed, viols, asleep_before)
        self.judge_callbacks(world, ev, obs, exp, viols)

    def judge_rx2(self, world, ev, obs, observed, viols):
        """Two lines queued, then one drain: only the C07 invariant and the multiset of emissions."""
        if obs.exc is not None:
            if "exc" in self.clauses:
                self.exc_violation(obs, "rx2", viols)
            return
        expected = []
        causes = {}
        for line in (ev[1], ev[2]):
            asleep_before = {nid for nid, n in self.model.nodes.items() if n.asleep}
            exp = self.model.rx(line, [o for o in observed if o is not None])
            if exp.accepted == UNSPEC:
                self.poisoned = True
                return
            causes[("rx", line)] = (asleep_before, exp)
            expected.extend(exp.emits + exp.emits_any)
        self.stats["rx2_steps"] += 1
        if "sleep" in self.clauses:
            for (text, cause), fields in zip(obs.sent, observed):
                if fields is None or cause not in causes:
                    continue
                asleep_before, exp = causes[cause]
                self.check_sleep_invariant(fields, cause, asleep_before, viols, "rx2")
        if "replies" in self.clauses or "sleep" in self.clauses:
            got = sorted(mask_ack(f) for f in observed if f is not None)
            want = sorted(mask_ack(f) for f in expected if isinstance(f[0], int))
            if len(want) == len(expected) and got != want:
                viols.append(self.v("emissions-multiset", "rx2", f"two queued lines {ev[1]!r},{ev[2]!r}: emitted {got}, expected {want}"))

    def judge_set(self, world, ev, obs, exp, observed, viols, asleep_before):
        self.stats["set_calls"] += 1
        raised = obs.exc is not None and obs.where == "call"
        if obs.exc is not None and obs.where == "pump":
            if "exc" in self.clauses:
                self.exc_violation(obs, exp.kind + " (pump)", viols)
            return
        if exp.must_raise:
            self.stats["set_calls_must_refuse"] += 1
            if not raised and "wake" in self.clauses and "sleeping-node" in exp.kind:
                viols.append(self.v("refusal", exp.kind, f"set_child_value{ev[1:]} on a sleeping node returned normally although the value cannot be sent as a valid command"))
            if not raised and "sleeping-node" in exp.kind:
                # the call returned normally: from now on the value counts as pending, and the
                # clauses on later steps (valid emissions, wake-up burst) judge what happens to it
                try:
                    self.model.commit_desired(ev[1], (ev[2], int(ev[3]), ev[4]))
                except (ValueError, TypeError):
                    self.poisoned = True
            elif not raised:
                # awake node: an invalid command must not leave the gateway (the model expects no emission)
                self.stats["invalid_calls_not_refused"] += 1
                self.judge_emissions(world, ev, obs, exp, observed, viols, asleep_before)
            return
        if raised:
            if exp.may_raise:
                self.stats["set_calls_refused_unspec"] += 1
                return
            if "wake" in self.clauses or "replies" in self.clauses or "exc" in self.clauses:
                viols.append(self.v("valid-call-refused", exp.kind, f"set_child_value{ev[1:]} raised {obs.exc['type']}: {obs.exc['text']}", obs.exc["type"]))
            return
        store = getattr(exp, "pending_store", None)
        if store is not None:
            self.model.commit_desired(ev[1], store)
            self.stats["desired_values_stored"] += 1
        self.judge_emissions(world, ev, obs, exp, observed, viols, asleep_before)

    def judge_call(self, world, ev, obs, exp, observed, viols, asleep_before):
        if obs.exc is not None:
            if "exc" in self.clauses or "ota" in self.clauses:
                self.exc_violation(obs, exp.kind, viols)
            return
        self.judge_emissions(world, ev, obs, exp, observed, viols, asleep_before)

    # -- emissions ---------------------------------------------------------------------------

    def check_sleep_invariant(self, fields, cause, asleep_before, viols, kind):
        dest, cmd = fields[0], fields[2]
        self.stats["emitted_lines_judged"] += 1
        if dest not in asleep_before or cmd == 4:
            if cmd == 4 and dest in asleep_before:
                self.stats["stream_lines_to_sleeping_node"] += 1
            return
        self.stats["lines_to_sleeping_node"] += 1
        ok = False
        if cause and cause[0] == "rx":
            try:
                c = decode_line(cause[1])
            except Malformed:
                c = None
            if c is not None and c[0] == dest and c[2] == 3 and c[4] == self.model.wake_sub and c[1] == 255:
                ok = True
        if not ok:
            viols.append(
                self.v(
                    "sent-to-sleeping-node",
                    kind,
                    f"line {fields} left the gateway for sleeping node {dest}, caused by {short(cause)} which is not a wake-up of that node",
                )
            )

    def judge_emissions(self, world, ev, obs, exp, observed, viols, asleep_before):
        if "sleep" in self.clauses:
            for (text, cause), fields in zip(obs.sent, observed):
                if fields is not None:
                    self.check_sleep_invariant(fields, cause, asleep_before, viols, exp.kind)
        if "valid_emit" in self.clauses:
            for (text, cause), fields in zip(obs.sent, observed):
                self.stats["emitted_lines_validated"] += 1
                if CANON_LINE.match(text) is None or fields is None:
                    viols.append(self.v("emitted-line-not-canonical", exp.kind, f"emitted {text!r} is not one canonical line"))
                    continue
                verdict = ref_valid.ref_accepts(self.version, *fields)
                if verdict == ref_valid.REJECT:
                    viols.append(self.v("emitted-line-invalid", exp.kind, f"emitted {text!r} is not valid for protocol {self.version}"))
                if exp.concerned is not None and fields[0] not in (exp.concerned, 255):
                    viols.append(self.v("emitted-line-misaddressed", exp.kind, f"emitted {text!r} while the step concerns node {exp.concerned}"))
                if fields[2] == 3 and fields[3] != 0:
                    # an internal command with the flag set asks the node to echo it; the echo of a config/time/id
                    # answer is itself a valid request, so the answer would be requested again without end
                    viols.append(self.v("internal-command-requests-echo", exp.kind, f"emitted {text!r} carries ack flag {fields[3]} (the request's flag leaked into the answer)"))
        if exp.wake:
            self.stats["wake_steps"] += 1
            if len(exp.emits) + len(exp.emits_any) >= 2:
                self.stats["wake_bursts_with_2plus_items"] += 1
            if exp.emits_any:
                self.stats["wake_bursts_with_desired_values"] += 1
        want_cmp = False
        if exp.ota or any(f and f[2] == 4 for f in observed if f):
            want_cmp = "ota" in self.clauses
        elif exp.wake:
            want_cmp = "wake" in self.clauses or "replies" in self.clauses
        else:
            want_cmp = "replies" in self.clauses or ("ota" in self.clauses and ev[0] == "rx")
        if exp.id_response is not None and "ids" in self.clauses:
            self.judge_id(ev, exp, viols)
        if exp.id_response == "missing" and ("ids" in self.clauses or "replies" in self.clauses):
            viols.append(self.v("id-request-unanswered", exp.kind, f"{short(ev)}: no id response although an id above every known and handed-out id is free (known: {sorted(self.model.nodes)})"))
        if not want_cmp:
            return
        err = self.compare(exp, observed, obs)
        if err:
            clause = "wake-burst" if exp.wake else ("ota-reply" if exp.ota else "reply")
            viols.append(self.v(clause, exp.kind, f"{short(ev)}: {err}", self.err_class(err)))
        if exp.emits or exp.emits_any:
            self.stats["steps_with_expected_reply"] += 1

    @staticmethod
    def err_class(err):
        return err.split(":", 1)[0]

    def compare(self, exp, observed, obs):
        ordered = list(exp.emits)
        anyorder = list(exp.emits_any)
        if len(observed) != len(ordered) + len(anyorder):
            return f"count: expected {len(ordered) + len(anyorder)} emission(s) {ordered + anyorder}, observed {obs.lines()}"
        for want, got in zip(ordered, observed):
            err = self.match(want, got)
            if err:
                return err
        rest = observed[len(ordered):]
        want_rest = sorted(mask_ack(w) for w in anyorder)
        got_rest = sorted(mask_ack(g) if g else ("?",) for g in rest)
        if want_rest != got_rest:
            return f"desired-values: expected (any order) {want_rest}, observed {got_rest}"
        return None

    def match(self, want, got):
        if got is None:
            return "undecodable: emitted line does not decode"
        if isinstance(want[0], str):
            if want[0] == "config":
                _, node, fwid = want
                if (got[0], got[1], got[2], got[4]) != (node, 255, 4, 1):
                    return f"content: expected a firmware config response to node {node}, observed {got}"
                self.stats["config_responses_checked"] += 1
                err = expected_config_fields(node, fwid, self.model.firmware[fwid], got[5])
                return f"content: {err}" if err else None
            _, node, fwid, blk, other = want
            if (got[0], got[1], got[2], got[4]) != (node, 255, 4, 3):
                return f"content: expected a firmware block response to node {node}, observed {got}"
            image = self.model.firmware[fwid]
            total = len(image) + ((-len(image)) % 128)
            if blk * 16 >= total + 128:
                self.stats["block_responses_unspec_index"] += 1
                return None  # index beyond the image: content not prescribed
            if blk * 16 >= total:
                self.stats["block_responses_unspec_index"] += 1
                return None
            self.stats["block_responses_checked"] += 1
            err = expected_block_fields(fwid, image, blk, got[5])
            return f"content: {err}" if err else None
        if mask_ack(want) != mask_ack(got):
            return f"content: expected {want}, observed {got}"
        return None

    def judge_id(self, ev, exp, viols):
        self.stats["id_requests"] += 1
        checked = getattr(exp, "id_checked", None)
        if checked is None:
            return
        pid, nodes_before, handed = checked
        self.stats["id_responses"] += 1
        if pid is None or not 1 <= pid <= 254:
            viols.append(self.v("id-out-of-range", exp.kind, f"id response carries {exp.id_response!r}"))
        elif pid in nodes_before:
            viols.append(self.v("id-of-known-node", exp.kind, f"id response hands out {pid}, a node currently known"))
        elif pid in handed:
            viols.append(self.v("id-handed-out-twice", exp.kind, f"id response hands out {pid} which was handed out earlier"))

    # -- callbacks and state -----------------------------------------------------------------

    def judge_callbacks(self, world, ev, obs, exp, viols):
        if "callbacks" not in self.clauses:
            return
        n = len(obs.callbacks)
        if exp.callbacks == UNSPEC:
            self.stats["callback_count_unspec"] += 1
            if n > 1:
                viols.append(self.v("callback-count", exp.kind, f"{n} callbacks for one line {short(ev[1])!r}"))
        elif n != exp.callbacks:
            viols.append(self.v("callback-count", exp.kind, f"{n} callback(s) for {short(ev[1])!r}, expected {exp.callbacks}"))
            return
        if "dirty" in self.clauses and exp.callbacks == 1 and world.gw.tasks.persistence is not None:
            self.stats["dirty_flag_checked"] += 1
            if not world.gw.tasks.persistence.need_save:
                viols.append(self.v("state-change-not-marked-unsaved", exp.kind, f"{short(ev[1])!r} changed the state (callback {'raised' if world.cb_kind == 'raise' else 'ran'}) but the state is not marked as needing a save"))
        if n and exp.cb_fields is not None:
            self.stats["callbacks_checked"] += 1
            fields, view = obs.callbacks[0]
            got = (fields[0], fields[1], fields[2], fields[3], fields[4], fields[5])
            if tuple(got) != tuple(exp.cb_fields):
                viols.append(self.v("callback-fields", exp.kind, f"callback carried {got}, line was {exp.cb_fields}"))
            if view != self.model.tree() and not self.poisoned:
                viols.append(self.v("callback-before-state", exp.kind, f"state seen from inside the callback does not yet reflect {short(ev[1])!r}"))

    def judge_state(self, world, ev, obs, exp, viols):
        if obs.exc is not None:
            return
        if "tree" in self.clauses:
            self.stats["tree_comparisons"] += 1
            if world.tree() != self.model.tree():
                kind = exp.kind if exp is not None else ev[0]
                viols.append(self.v("tree", kind, f"after {short(ev)} the node/child/value tree differs from the protocol meaning of the history:\n impl={short(world.tree(), 600)}\n model={short(self.model.tree(), 600)}"))
        if "sleep" in self.clauses:
            for nid, n in self.model.nodes.items():
                s = world.gw.sensors.get(nid)
                if s is not None and not n.asleep and len(s.queue):
                    viols.append(self.v("traffic-delayed-for-awake-node", exp.kind if exp else ev[0], f"node {nid} is not asleep but has withheld traffic {list(s.queue)}"))
